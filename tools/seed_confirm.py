#!/venv/bin/python
"""Confirm seeded changes: apply to a scratch worktree of /repo HEAD, run the baseline, the demo (with/without),
and the property's quick check; write /verif/seeded/<id>/{patch.diff,demo.py,notes.md,meta.json}.

usage: seed_confirm.py SRC_DIR [ids...]    SRC_DIR holds <PID>/<x>/{patch.diff|patch.ported.diff,demo.py,notes.md}
"""
import json, os, shutil, subprocess, sys, tempfile

SRC = sys.argv[1]
only = sys.argv[2:]
ROOT = "/verif"
head = subprocess.check_output(["git", "-C", "/repo", "rev-parse", "--short", "HEAD"]).decode().strip()


def sh(cmd, cwd=None, env=None, timeout=1800):
    p = subprocess.run(cmd, shell=True, cwd=cwd, env=env, stdout=subprocess.PIPE, stderr=subprocess.STDOUT, text=True, timeout=timeout)
    return p.returncode, p.stdout


rows = []
for pid in sorted(os.listdir(SRC)):
    for x in sorted(os.listdir(os.path.join(SRC, pid))):
        sid = f"{pid}-{x}"
        if only and sid not in only and pid not in only:
            continue
        d = os.path.join(SRC, pid, x)
        ported = os.path.exists(os.path.join(d, "patch.ported.diff"))
        patch = os.path.join(d, "patch.ported.diff" if ported else "patch.diff")
        if not os.path.exists(patch) or not os.path.exists(os.path.join(d, "demo.py")):
            continue
        wt = tempfile.mkdtemp(prefix="vseed.")
        os.rmdir(wt)
        sh(f"git -C /repo worktree add -q --detach {wt} HEAD")
        meta = {"id": sid, "property": pid, "repo_head": head, "ported": ported}
        try:
            env = dict(os.environ, PYTHONPATH=wt, PYTHONDONTWRITEBYTECODE="1")
            rc0, out0 = sh(f"/venv/bin/python {d}/demo.py", cwd=wt, env=env)
            meta["demo_without_patch"] = {"rc": rc0, "tail": out0[-300:]}
            rc, out = sh(f"git apply {patch}", cwd=wt)
            meta["applies"] = rc == 0
            if rc != 0:
                meta["apply_error"] = out[-300:]
            else:
                rcb, outb = sh(f"/verif/tools/baseline.py {wt}")
                meta["baseline_with_patch"] = {"rc": rcb, "line": outb.strip().splitlines()[0] if outb.strip() else ""}
                rc1, out1 = sh(f"/venv/bin/python {d}/demo.py", cwd=wt, env=env)
                meta["demo_with_patch"] = {"rc": rc1, "tail": out1[-300:]}
                envc = dict(os.environ, FASTAVRO_REPO=wt)
                alt = dict(x.split("=") for x in os.environ.get("ALT", "").split(",") if "=" in x)
                chk = alt.get(sid, pid)
                meta["checked_with"] = chk
                rcc, outc = sh(f"./check {chk} --tier quick", cwd=ROOT, env=envc)
                viol = [l for l in outc.splitlines() if l.startswith("VIOLATION")]
                sig = [l.strip()[:300] for l in outc.splitlines() if l.startswith("  ") and " x" in l][:3]
                meta["check_quick"] = {"rc": rcc, "violations": len(viol), "signatures": sig}
                meta["caught_by_quick"] = rcc == 1 and bool(viol)
        finally:
            sh(f"git -C /repo worktree remove --force {wt}")
        ok = meta.get("applies") and meta.get("baseline_with_patch", {}).get("rc") == 0 and meta["demo_without_patch"]["rc"] == 0 and meta.get("demo_with_patch", {}).get("rc") == 1
        meta["confirmed"] = bool(ok)
        rows.append((sid, meta.get("applies"), meta.get("baseline_with_patch", {}).get("rc"), meta["demo_without_patch"]["rc"], meta.get("demo_with_patch", {}).get("rc"), meta.get("caught_by_quick")))
        print(rows[-1], flush=True)
        if ok:
            out = os.path.join(ROOT, "seeded", sid)
            os.makedirs(out, exist_ok=True)
            shutil.copy(patch, os.path.join(out, "patch.diff"))
            if ported:
                shutil.copy(os.path.join(d, "patch.diff"), os.path.join(out, "patch.pinned.diff"))
            shutil.copy(os.path.join(d, "demo.py"), os.path.join(out, "demo.py"))
            notes = os.path.join(d, "notes.md")
            if os.path.exists(notes):
                shutil.copy(notes, os.path.join(out, "notes.md"))
                txt = open(notes).read()
            else:
                txt = ""
            import re as _re
            title = txt.strip().splitlines()[0].lstrip("# ").strip() if txt.strip() else ""
            needs = ""
            for sec in _re.split(r"\n#+ ", "\n" + txt):
                head = sec.splitlines()[0].lower() if sec.strip() else ""
                if "manifest" in head or "trigger" in head or "needs" in head:
                    needs = " ".join(sec.splitlines()[1:]).strip()[:700]
                    break
            if not needs:
                mm = _re.search(r"(?i)(trigger[^\n]*\n(?:.*\n){0,6})", txt)
                needs = mm.group(1).strip()[:700] if mm else "see notes.md"
            meta["summary"] = title
            meta["breaks"] = pid
            meta["what_it_needs"] = needs
            meta["ran"] = [
                f"git worktree of /repo at {head}; git apply patch.diff",
                "/verif/tools/baseline.py <worktree>  (540/540 stable-pass tests must pass)",
                "PYTHONPATH=<worktree> /venv/bin/python demo.py  (exit 0 without the patch, exit 1 with it)",
                f"FASTAVRO_REPO=<worktree> ./check {meta.get('checked_with', pid)} --tier quick",
            ]
            json.dump(meta, open(os.path.join(out, "meta.json"), "w"), indent=1)
print("\nSUMMARY")
for r in rows:
    print(r)

#!/bin/bash
# usage: tools/run_all.sh [tier] [ids...]   runs the registered checks sequentially, prints one summary line each
tier=${1:-quick}; shift
ids=${@:-$(/venv/bin/python -c "import json;print(' '.join(c['property_id'] for c in json.load(open('/verif/MANIFEST.json'))['checks']))")}
cd "$(dirname "$0")/.."
rc_all=0
for id in $ids; do
  out=$(./check $id --tier $tier 2>&1); rc=$?
  echo "$id rc=$rc $(echo "$out" | grep -E "^$id tier" | tail -1)"
  echo "$out" | grep -E "VIOLATION|KNOWN-FINDING|HARNESS-ERROR" | head -5
  [ $rc -ne 0 ] && rc_all=1
done
exit $rc_all

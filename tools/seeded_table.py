#!/venv/bin/python
"""Rewrites the seeded-changes table of DESIGN.md (between the markers) from seeded/*/meta.json."""
import glob, json, os, re
ROOT = os.path.dirname(os.path.dirname(os.path.abspath(__file__)))
rows = ["| id | change (title from the producing agent's notes) | caught by (first bucket of the quick run) |", "|---|---|---|"]
n = caught = 0
for d in sorted(glob.glob(os.path.join(ROOT, "seeded", "*"))):
    mp = os.path.join(d, "meta.json")
    if not os.path.exists(mp):
        continue
    m = json.load(open(mp))
    n += 1
    title = (m.get("summary") or "").split("—", 1)[-1].split(" -- ", 1)[-1].strip().replace("|", "/")[:120]
    sig = (m.get("check_quick", {}).get("signatures") or [""])[0].split(" x")[0].strip().replace("|", "/")[:70]
    chk = m.get("checked_with", m["property"])
    if m.get("caught_by_quick"):
        caught += 1
        by = f"{chk} quick: `{sig}`"
    else:
        by = f"NOT caught by {chk} quick"
    rows.append(f"| {m['id']}{' (ported)' if m.get('ported') else ''} | {title} | {by} |")
text = "\n".join(rows) + f"\n\n{caught} of {n} confirmed seeded changes are caught by the quick tier.\n"
p = os.path.join(ROOT, "DESIGN.md")
s = open(p).read()
a, b = "<!-- seeded-table:begin -->", "<!-- seeded-table:end -->"
if a in s:
    s = s[: s.index(a) + len(a)] + "\n" + text + s[s.index(b):]
else:
    raise SystemExit("markers missing")
open(p, "w").write(s)
print(f"{caught}/{n}")

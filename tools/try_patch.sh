#!/bin/bash
# usage: tools/try_patch.sh <patch.diff> <check args...>
# applies the patch to a scratch worktree of /repo (outside /repo and /verif), runs ./check against it, removes the worktree
set -u
patch=$(realpath "$1"); shift
wt=$(mktemp -d /tmp/vmut.XXXXXX)
rmdir "$wt"
git -C /repo worktree add -q --detach "$wt" HEAD || exit 3
# carry uncommitted /repo changes too (checks must see the working tree)
git -C /repo diff HEAD | git -C "$wt" apply --allow-empty 2>/dev/null
if ! git -C "$wt" apply "$patch"; then echo "PATCH DOES NOT APPLY"; git -C /repo worktree remove --force "$wt"; exit 3; fi
cd /verif && FASTAVRO_REPO="$wt" ./check "$@"
rc=$?
git -C /repo worktree remove --force "$wt"
exit $rc

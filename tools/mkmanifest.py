#!/venv/bin/python
"""Regenerates MANIFEST.json from the table below (single source of truth)."""
import json, os, sys

ROOT = os.path.dirname(os.path.dirname(os.path.abspath(__file__)))

CHECKS = {
    "C01": dict(
        cat="exploration",
        text="Generated schemas x conforming data (boundary-biased) written back to back and read one by one; values compared with the documented normalisation computed by an independent reference model, stream position checked after every read; plus an exhaustive +-2^k+-1 varint table. Exploration is the right level: the domain (all schemas x all data) is infinite and the oracle is executable.",
        note="Trusted: the reference model in vlib/ref (self-tested against specification examples at start-up), Hypothesis. Pure-Python modules only; data nesting <= 30; float leaves within single range.",
        tech="property-based testing (Hypothesis) against an independent reference model + exhaustive boundary table",
        ref="4/C01",
    ),
    "C02": dict(
        cat="exploration",
        text="Differential byte comparison of schemaless_writer output with an independently written encoder using the branches found in the bytes; every selected branch is checked for conformance; fixed table of every varint-length boundary as value, length prefix, collection count, enum and union index.",
        note="Trusted: vlib/ref encoder/decoder (spec examples self-test). Map entry order = datum iteration order.",
        tech="property-based differential testing against an independent encoder",
        ref="4/C02",
    ),
}

NOT_YET = {}


def main():
    props = [json.loads(l) for l in open(os.path.join(ROOT, "properties.jsonl"))]
    checks = []
    na = []
    for p in props:
        pid = p["id"]
        c = CHECKS.get(pid)
        if c is None:
            na.append({"property_id": pid, "reason": NOT_YET.get(pid, "check not built yet in this revision of /verif (planned in DESIGN.md section 4); nothing is claimed for it")})
            continue
        checks.append(
            {
                "property_id": pid,
                "quick_cmd": f"./check {pid} --tier quick",
                "thorough_cmd": f"./check {pid} --tier thorough",
                "evidence_file": f"/verif/evidence/{pid}.json",
                "replay_cmd_template": f"./check {pid} --replay {{path}}",
                "engine": "vlib",
                "level_claimed": {"category": c["cat"], "text": c["text"], "design_ref": "DESIGN.md section " + c["ref"]},
                "level_note": c["note"],
                "technique": c["tech"],
            }
        )
    m = {
        "version": 1,
        "setup_cmd": "./setup.sh",
        "hooks": {
            "guard": "FASTAVRO_VERIF",
            "enable": "no source hooks are needed; checks import /repo's working tree through PYTHONPATH with FASTAVRO_VERIF=1 set and the compiled extension modules blocked",
            "baseline_off_cmd": "/venv/bin/python /verif/tools/baseline.py /repo",
            "source_commits": [],
            "add_only": True,
        },
        "engines": [
            {
                "name": "vlib",
                "path": "/verif/vlib",
                "serves_properties": [c["property_id"] for c in checks],
                "kind_free_text": "Hypothesis-driven generators + independent Avro reference model (vlib/ref) + collect-then-shrink runner; ./check <ID> --tier quick|thorough",
            }
        ],
        "checks": checks,
        "not_applicable": na,
        "notes": "Exit codes: 0 held, 1 VIOLATION line printed, 2 harness error. Known findings: /verif/known_findings.json. Seeded changes used for sensitivity: /verif/seeded/.",
    }
    if not na:
        del m["not_applicable"]
    with open(os.path.join(ROOT, "MANIFEST.json"), "w") as f:
        json.dump(m, f, indent=1)
        f.write("\n")
    try:
        import jsonschema
        jsonschema.validate(m, json.load(open("/root/.vp/MANIFEST.schema.json")))
        print("MANIFEST valid;", len(checks), "checks,", len(na), "not_applicable")
    except ImportError:
        print("written (jsonschema not available to validate)")


main()

#!/venv/bin/python
"""Re-run the quick check(s) recorded for every seeded change against /repo HEAD + that change.

Each change is applied to a scratch worktree of /repo (outside /repo and /verif), the check named in
meta.json["checked_with"] is run with FASTAVRO_REPO pointing at it, and the worktree is removed.
Result table on stdout and in scratch/seeded_recheck.json (working notes, not evidence).

usage: seeded_recheck.py [--jobs N] [ids...]
"""
import json
import multiprocessing
import os
import subprocess
import sys
import tempfile

ROOT = os.path.dirname(os.path.dirname(os.path.abspath(__file__)))


def sh(cmd, cwd=None, env=None, timeout=2400):
    p = subprocess.run(cmd, shell=True, cwd=cwd, env=env, stdout=subprocess.PIPE, stderr=subprocess.STDOUT, text=True, timeout=timeout)
    return p.returncode, p.stdout


def one(sid):
    d = os.path.join(ROOT, "seeded", sid)
    meta = json.load(open(os.path.join(d, "meta.json")))
    chk = meta.get("checked_with") or meta["property"]
    wt = tempfile.mkdtemp(prefix="vseed.")
    os.rmdir(wt)
    sh(f"git -C /repo worktree add -q --detach {wt} HEAD")
    res = {"id": sid, "check": chk}
    try:
        applied = False
        for name in ("patch.diff", "patch.pinned.diff"):
            p = os.path.join(d, name)
            if not os.path.exists(p):
                continue
            for flags in ("", "-3"):
                rc, out = sh(f"git apply {flags} {p}", cwd=wt)
                if rc == 0:
                    applied = True
                    break
                sh("git checkout -q -- . && git clean -fdq", cwd=wt)
            if applied:
                break
        res["applies"] = applied
        if applied:
            rc, out = sh(f"./check {chk} --tier quick", cwd=ROOT, env=dict(os.environ, FASTAVRO_REPO=wt))
            res["rc"] = rc
            res["caught"] = rc == 1 and "VIOLATION" in out
            res["signature"] = next((l.strip()[:160] for l in out.splitlines() if l.startswith("  ") and " x" in l), "")
            if rc not in (0, 1):
                res["tail"] = out[-400:]
    finally:
        sh(f"git -C /repo worktree remove --force {wt}")
    return res


def main():
    args = sys.argv[1:]
    jobs = 8
    if args[:1] == ["--jobs"]:
        jobs = int(args[1])
        args = args[2:]
    ids = sorted(x for x in os.listdir(os.path.join(ROOT, "seeded")) if os.path.isdir(os.path.join(ROOT, "seeded", x)))
    if args:
        ids = [i for i in ids if i in args or i.split("-")[0] in args]
    out = []
    with multiprocessing.Pool(jobs) as pool:
        for r in pool.imap_unordered(one, ids):
            out.append(r)
            print(r["id"], r["check"], "applies" if r.get("applies") else "DOES-NOT-APPLY", "caught" if r.get("caught") else ("MISSED rc=%s" % r.get("rc")), r.get("signature", "")[:100], flush=True)
    out.sort(key=lambda r: r["id"])
    os.makedirs(os.path.join(ROOT, "scratch"), exist_ok=True)
    json.dump(out, open(os.path.join(ROOT, "scratch", "seeded_recheck.json"), "w"), indent=1)
    n = len(out)
    print(f"{sum(1 for r in out if r.get('caught'))}/{n} caught; {sum(1 for r in out if not r.get('applies'))} do not apply")


if __name__ == "__main__":
    main()

#!/venv/bin/python
"""Run the repository's pinned baseline suite in a tree and compare with BASELINE.json.

usage: baseline.py [TREE]   (default /repo)
exit 0 iff every stable-pass test of the baseline passed.
"""
import json, os, subprocess, sys, tempfile
import xml.etree.ElementTree as ET

def main():
    tree = os.path.abspath(sys.argv[1]) if len(sys.argv) > 1 else "/repo"
    base = json.load(open("/root/.vp/BASELINE.json"))
    want = set(base["stable_pass"])
    with tempfile.TemporaryDirectory() as td:
        xml = os.path.join(td, "j.xml")
        env = dict(os.environ, PYTHONDONTWRITEBYTECODE="1")
        env.pop("FASTAVRO_VERIF", None)
        p = subprocess.run(
            ["/venv/bin/python", "-m", "pytest", "-q", "-p", "no:cacheprovider",
             "--timeout=900", "--continue-on-collection-errors", "--junitxml=" + xml],
            cwd=tree, env=env, stdout=subprocess.PIPE, stderr=subprocess.STDOUT, text=True)
        passed = set()
        if os.path.exists(xml):
            for tc in ET.parse(xml).getroot().iter("testcase"):
                bad = any(ch.tag in ("failure", "error", "skipped") for ch in tc)
                if not bad:
                    passed.add(tc.get("classname") + "::" + tc.get("name"))
    missing = sorted(want - passed)
    print(f"baseline: {len(want & passed)}/{len(want)} stable-pass tests passed in {tree}")
    for m in missing[:40]:
        print("  NOT PASSING:", m)
    if missing and not passed:
        print(p.stdout[-3000:])
    sys.exit(1 if missing else 0)

main()

#!/venv/bin/python
"""Systematic sensitivity measurement: AST-level mutants of the pure-Python sources.

For every sampled mutant: copy /repo to a scratch directory (outside /repo and /verif), write the mutated module,
run the repository's baseline suite; if the suite still passes ("a change that compiles and passes the existing
tests"), run the quick tier of the checks mapped to that file with FASTAVRO_REPO pointing at the copy.  The scratch
copy is removed afterwards.  Results go to scratch/mutation/<name>.json (one line per mutant) - they are NOT evidence.

usage: mutate.py --sample N [--seed S] [--jobs J] [--files f1,f2] [--out name]
"""
import argparse
import ast
import copy
import json
import multiprocessing
import os
import random
import shutil
import subprocess
import sys
import tempfile

ROOT = os.path.dirname(os.path.dirname(os.path.abspath(__file__)))
REPO = "/repo"
CHECKS = ROOT
FILES = {
    "fastavro/io/binary_encoder.py": ["C01", "C02", "C04"],
    "fastavro/io/binary_decoder.py": ["C01", "C03", "C06", "C05"],
    "fastavro/_write_py.py": ["C01", "C02", "C04", "C05", "C07", "C09", "C10", "C15", "C16"],
    "fastavro/_read_py.py": ["C01", "C03", "C04", "C05", "C06", "C08", "C09", "C15", "C16"],
    "fastavro/_schema_py.py": ["C11", "C13", "C12", "C19", "C14", "C04", "C09"],
    "fastavro/_validation_py.py": ["C10", "C09"],
    "fastavro/_logical_writers_py.py": ["C16", "C10"],
    "fastavro/_logical_readers_py.py": ["C16"],
    "fastavro/io/json_encoder.py": ["C15"],
    "fastavro/io/json_decoder.py": ["C15"],
    "fastavro/io/parser.py": ["C15"],
    "fastavro/io/symbols.py": ["C15", "C17"],
    "fastavro/utils.py": ["C20"],
    "fastavro/_schema_common.py": ["C14", "C01", "C08", "C10"],
    "fastavro/_write_common.py": ["C07", "C04"],
    "fastavro/repository/flat_dict.py": ["C19"],
}
CMP = {ast.Lt: ast.LtE, ast.LtE: ast.Lt, ast.Gt: ast.GtE, ast.GtE: ast.Gt, ast.Eq: ast.NotEq, ast.NotEq: ast.Eq,
       ast.In: ast.NotIn, ast.NotIn: ast.In, ast.Is: ast.IsNot, ast.IsNot: ast.Is}
BIN = {ast.Add: ast.Sub, ast.Sub: ast.Add, ast.Mult: ast.FloorDiv, ast.LShift: ast.RShift, ast.RShift: ast.LShift,
       ast.BitOr: ast.BitAnd, ast.BitAnd: ast.BitOr, ast.BitXor: ast.BitOr, ast.FloorDiv: ast.Mult, ast.Mod: ast.FloorDiv}


class Collector(ast.NodeVisitor):
    """Enumerates mutation sites as (kind, node id, variant)."""

    def __init__(self):
        self.sites = []
        self.counter = 0
        self.func = []

    def generic_visit(self, node):
        node._mid = self.counter
        self.counter += 1
        if isinstance(node, (ast.FunctionDef, ast.AsyncFunctionDef)):
            self.func.append(node.name)
        fn = self.func[-1] if self.func else "<module>"
        ln = getattr(node, "lineno", 0)
        try:
            src = ast.unparse(node)[:120]
        except Exception:
            src = ""
        if isinstance(node, ast.Compare):
            for i, op in enumerate(node.ops):
                if type(op) in CMP:
                    self.sites.append(("cmp", node._mid, i, fn, ln, src))
        elif isinstance(node, ast.BinOp) and type(node.op) in BIN:
            self.sites.append(("bin", node._mid, 0, fn, ln, src))
        elif isinstance(node, ast.BoolOp):
            self.sites.append(("boolop", node._mid, 0, fn, ln, src))
        elif isinstance(node, ast.UnaryOp) and isinstance(node.op, ast.Not):
            self.sites.append(("not", node._mid, 0, fn, ln, src))
        elif isinstance(node, ast.Constant):
            if isinstance(node.value, bool):
                self.sites.append(("const-bool", node._mid, 0, fn, ln, src))
            elif isinstance(node.value, int) and abs(node.value) < 2**64:
                self.sites.append(("const-int", node._mid, 1, fn, ln, src))
                self.sites.append(("const-int", node._mid, -1, fn, ln, src))
        elif isinstance(node, ast.If):
            self.sites.append(("if-true", node._mid, 0, fn, ln, src))
            self.sites.append(("if-false", node._mid, 0, fn, ln, src))
        elif isinstance(node, ast.Raise):
            self.sites.append(("drop-raise", node._mid, 0, fn, ln, src))
        elif isinstance(node, ast.Expr) and isinstance(node.value, ast.Call):
            self.sites.append(("drop-call", node._mid, 0, fn, ln, src))
        elif isinstance(node, ast.Break):
            self.sites.append(("break-continue", node._mid, 0, fn, ln, src))
        elif isinstance(node, (ast.Assign, ast.AugAssign)) and self.func:
            self.sites.append(("drop-assign", node._mid, 0, fn, ln, src))
        super().generic_visit(node)
        if isinstance(node, (ast.FunctionDef, ast.AsyncFunctionDef)):
            self.func.pop()


class Applier(ast.NodeTransformer):
    def __init__(self, site):
        self.kind, self.mid, self.var = site[0], site[1], site[2]
        self.counter = 0
        self.done = False

    def generic_visit(self, node):
        mid = self.counter
        self.counter += 1
        hit = mid == self.mid
        node = super().generic_visit(node)
        if not hit:
            return node
        self.done = True
        k = self.kind
        if k == "cmp":
            node.ops[self.var] = CMP[type(node.ops[self.var])]()
        elif k == "bin":
            node.op = BIN[type(node.op)]()
        elif k == "boolop":
            node.op = ast.Or() if isinstance(node.op, ast.And) else ast.And()
        elif k == "not":
            return node.operand
        elif k == "const-bool":
            return ast.copy_location(ast.Constant(value=not node.value), node)
        elif k == "const-int":
            return ast.copy_location(ast.Constant(value=node.value + self.var), node)
        elif k == "if-true":
            node.test = ast.copy_location(ast.Constant(value=True), node.test)
        elif k == "if-false":
            node.test = ast.copy_location(ast.Constant(value=False), node.test)
        elif k in ("drop-raise", "drop-call", "drop-assign"):
            return ast.copy_location(ast.Pass(), node)
        elif k == "break-continue":
            return ast.copy_location(ast.Continue(), node)
        return node


def sites_of(path):
    tree = ast.parse(open(os.path.join(REPO, path)).read())
    c = Collector()
    c.visit(tree)
    return c.sites


def mutated_source(path, site):
    tree = ast.parse(open(os.path.join(REPO, path)).read())
    a = Applier(site)
    tree = a.visit(tree)
    ast.fix_missing_locations(tree)
    if not a.done:
        return None
    return ast.unparse(tree)


def run_one(job):
    try:
        return _run_one(job)
    except Exception as e:  # noqa: a tool problem must not end the whole sample
        return {"idx": job[0], "file": job[1], "kind": job[2][0], "mid": job[2][1], "variant": job[2][2], "function": job[2][3],
                "line": job[2][4], "status": "tool-error", "error": repr(e)[:300]}


def _run_one(job):
    idx, path, site, checks, examples = job
    src = mutated_source(path, site)
    res = {"idx": idx, "file": path, "kind": site[0], "mid": site[1], "variant": site[2], "function": site[3], "line": site[4], "src": site[5] if len(site) > 5 else ""}
    if src is None:
        res["status"] = "not-applied"
        return res
    orig = ast.unparse(ast.parse(open(os.path.join(REPO, path)).read()))
    if src == orig:
        res["status"] = "identical"
        return res
    wt = tempfile.mkdtemp(prefix="vmutant.")
    try:
        for item in ("fastavro", "tests", "pytest.ini", "setup.cfg", "pyproject.toml", "setup.py", "README.md"):
            s = os.path.join(REPO, item)
            if os.path.isdir(s):
                shutil.copytree(s, os.path.join(wt, item), ignore=shutil.ignore_patterns("__pycache__", "*.pyc", "*.c", "*.pyx", "*.so"))
            elif os.path.exists(s):
                shutil.copy(s, wt)
        with open(os.path.join(wt, path), "w") as f:
            f.write(src)
        # does it import at all?
        p = subprocess.run([sys.executable, "-c", "import fastavro, fastavro.utils, fastavro.json_read, fastavro.json_write"], cwd=wt,
                           env=dict(os.environ, PYTHONPATH=wt, PYTHONDONTWRITEBYTECODE="1"), capture_output=True, text=True, timeout=120)
        if p.returncode != 0:
            res["status"] = "does-not-import"
            return res
        try:
            b = subprocess.run([os.path.join(ROOT, "tools", "baseline.py"), wt], capture_output=True, text=True, timeout=1200)
        except subprocess.TimeoutExpired:
            res["status"] = "killed-by-baseline"
            res["baseline"] = "timeout"
            return res
        if b.returncode != 0:
            res["status"] = "killed-by-baseline"
            return res
        killed = []
        for chk in checks:
            cmd = [os.path.join(CHECKS, "check"), chk, "--tier", "quick"]
            if examples:
                cmd += ["--examples", str(examples)]
            try:
                c = subprocess.run(cmd, cwd=CHECKS, env=dict(os.environ, FASTAVRO_REPO=wt), capture_output=True, text=True, timeout=1500)
                rc = c.returncode
                out = c.stdout
            except subprocess.TimeoutExpired:
                rc, out = 1, "TIMEOUT (treated as detected: the check hangs on the mutant)"
            if rc == 1 and ("VIOLATION" in out or "TIMEOUT" in out):
                sig = [l.strip()[:160] for l in out.splitlines() if l.startswith("  ") and " x" in l][:1]
                killed.append({"check": chk, "signature": sig[0] if sig else out[:80]})
                break  # one detecting check is enough
            elif rc == 2:
                killed.append({"check": chk, "signature": "HARNESS-ERROR " + out[-200:]})
                res["harness_error"] = True
                break
        res["status"] = "killed-by-check" if killed else "survived"
        res["killed_by"] = killed
        return res
    finally:
        shutil.rmtree(wt, ignore_errors=True)


def main():
    global REPO
    ap = argparse.ArgumentParser()
    ap.add_argument("--sample", type=int, default=50)
    ap.add_argument("--seed", type=int, default=1)
    ap.add_argument("--jobs", type=int, default=8)
    ap.add_argument("--files")
    ap.add_argument("--out", default="run")
    ap.add_argument("--examples", type=int, default=0)
    ap.add_argument("--diff", help="jsonl of an earlier run: print the source diff of each survivor and exit")
    ap.add_argument("--rerun", help="jsonl of an earlier run: re-run its survivors (matched by file, kind, variant, line)")
    args = ap.parse_args()
    if args.diff:
        import difflib
        for l in open(args.diff):
            r = json.loads(l)
            if r["status"] != "survived":
                continue
            site = (r["kind"], r["mid"], r["variant"], r["function"], r["line"])
            a = ast.unparse(ast.parse(open(os.path.join(REPO, r["file"])).read())).splitlines()
            print(f"=== {r['file']} {r['function']} line {r['line']} {r['kind']} {r['variant']}")
            try:
                b = mutated_source(r["file"], site).splitlines()
            except Exception:
                print("    (the source changed since that run)")
                continue
            for d in difflib.unified_diff(a, b, lineterm="", n=2):
                if not d.startswith(("---", "+++")):
                    print("   ", d)
        return
    files = args.files.split(",") if args.files else list(FILES)
    # work from a private snapshot so that edits to /repo while the sample runs cannot shift the sites
    snap = tempfile.mkdtemp(prefix="vmutsnap.")
    for item in ("fastavro", "tests", "pytest.ini", "setup.cfg", "pyproject.toml", "setup.py", "README.md"):
        src = os.path.join(REPO, item)
        if os.path.isdir(src):
            shutil.copytree(src, os.path.join(snap, item), ignore=shutil.ignore_patterns("__pycache__", "*.pyc", "*.c", "*.pyx", "*.so"))
        elif os.path.exists(src):
            shutil.copy(src, snap)
    REPO = snap
    # ... and from a private copy of the checks, so that work on /verif does not disturb a running sample
    global CHECKS
    vsnap = tempfile.mkdtemp(prefix="vmutverif.")
    CHECKS = os.path.join(vsnap, "verif")
    shutil.copytree(ROOT, CHECKS, ignore=shutil.ignore_patterns("__pycache__", ".git", "scratch", "replays", "seeded", "evidence"))
    try:
        _main(args, files)
    finally:
        shutil.rmtree(snap, ignore_errors=True)
        shutil.rmtree(vsnap, ignore_errors=True)


def _main(args, files):
    allsites = []
    for path in files:
        for s in sites_of(path):
            allsites.append((path, s))
    rnd = random.Random(args.seed)
    rnd.shuffle(allsites)
    chosen = allsites[: args.sample]
    if args.rerun:
        want = set()
        for l in open(args.rerun):
            r = json.loads(l)
            if r["status"] == "survived":
                want.add((r["file"], r["kind"], r["variant"], r["function"], r.get("src") or r["line"]))
        chosen = [(p, s) for p, s in allsites if (p, s[0], s[2], s[3], s[5]) in want or (p, s[0], s[2], s[3], s[4]) in want]
    jobs = [(i, p, s, FILES[p], args.examples) for i, (p, s) in enumerate(chosen)]
    outdir = os.path.join(ROOT, "scratch", "mutation")
    os.makedirs(outdir, exist_ok=True)
    outp = os.path.join(outdir, args.out + ".jsonl")
    print(f"{len(allsites)} mutation sites in {len(files)} files; running {len(jobs)} with {args.jobs} jobs -> {outp}", flush=True)
    counts = {}
    with open(outp, "w") as f, multiprocessing.Pool(args.jobs) as pool:
        for r in pool.imap_unordered(run_one, jobs):
            counts[r["status"]] = counts.get(r["status"], 0) + 1
            f.write(json.dumps(r) + "\n")
            f.flush()
            print(r["status"], r["file"], r["function"], r["line"], r["kind"], (r.get("killed_by") or [{}])[0].get("check", ""), flush=True)
    print(json.dumps(counts))


if __name__ == "__main__":
    main()

"""C19 - load_schema from per-type files is equivalent to parsing the same types inlined."""
import io
import json
import os
import re
import tempfile

import fastavro
from fastavro.schema import load_schema, load_schema_ordered, to_parsing_canonical_form, parse_schema
from fastavro._schema_common import UnknownType
from hypothesis import strategies as st

from .. import gen, bincase
from ..ref import model as M
from ..ref import binary as B
from ..ref import canon
from ..runner import Check, Violation, guard, outcome, HarnessError


def names_type(e, full):
    """Does the error name exactly this type (its `name` attribute, or the full name as a whole token of the message)?"""
    if getattr(e, "name", None) == full:
        return True
    return re.search(r"(?<![\w.])" + re.escape(full) + r"(?![\w])", str(e)) is not None


class C19(Check):
    pid = "C19"
    level = "exploration"
    rule = (
        "Generated acyclic dependency graphs of 2-8 records/enums/fixed over one or several namespaces (references from "
        "fields, array items, map values and union branches, diamonds, repeated use at several depths, qualified and "
        "namespace-relative spellings); each type is written to '<full name>.avsc' in a per-case scratch directory with every "
        "other type referred to by name. Oracle: our own inliner places each definition at its first use (depth first); "
        "load_schema(top) and load_schema_ordered(dependencies first) must have the canonical form of that inlined schema "
        "(reference canonicaliser, and fastavro's own canonical form of the inlined JSON) and must encode generated data to "
        "identical bytes (schemaless; container round trip). With any one reachable file deleted the call must raise an error "
        "naming the missing full name. Non-trivial = graph with >=3 types or a type used from >=2 places. Distinct by digest."
    )
    assumptions = ["graphs are acyclic (recursive types are not placed in separate files)", "either all types live in namespaces or all in the null namespace (a null-namespace type cannot be referred to from a namespaced file)"]
    required_labels = ["types>=3", "shared-type", "namespaces>=2", "relative-ref", "qualified-ref", "missing-file", "ordered", "depth>=2", "explicit-repo", "repo-object-reused", "files>=2", "files>=4", "ref@field", "ref@array", "ref@map", "ref@union", "ordered:second-order"]
    quick = (1500, 1)
    thorough = (3000, 16)

    def selftest(self):
        B.selftest()
        canon.selftest()

    def strategy(self, tier):
        @st.composite
        def cases(draw):
            d = gen.D(draw)
            pool = d.choice([[""], ["ns"], ["ns", "com.ex"], ["ns", "com.ex", "ns.sub"]])
            feat = gen.Features(big=False, exotic_seqs=False, extra_keys=0.0, recursion=False, ns_pool=pool, name_clash=0.2, top_kinds=("record",), max_depth=4, max_named=8)
            for _ in range(4):
                # a dependency needs at least two named types: draw again rather than spend the case on a single file
                ir, table, js = gen.build_schema(d, feat)
                root, gtable = gen.to_graph(ir)
                if len(gtable) >= 2:
                    break
            gen.check_truth(ir, table, js)
            names = list(gtable)
            files = {}
            for n in names:
                fir, ft = gen.linearize({"k": "ref", "name": n}, gtable, already=[m for m in names if m != n])
                files[n] = gen.Renderer(d, feat, ft).render(fir, "")
            dg = gen.DataGen(d, feat, table)
            data = [dg.gen(ir, 5) for _ in range(d.rng(1, 2))]
            missing = d.choice(names[1:]) if len(names) > 1 else None
            return {"top": root["name"], "files": files, "data": data, "missing": missing}

        return cases()

    def fixed_cases(self, tier):
        # two types share their unqualified name (null namespace / a namespace); the namespaced one is referred to only by
        # its relative spelling inside a dependency, after the null-namespace one has already been loaded
        for kind, a, b, va, vb in (("enum", {"symbols": ["M", "FT"]}, {"symbols": ["DEG", "RAD", "M"]}, "M", "M"), ("fixed", {"size": 1}, {"size": 2}, b"a", b"bc")):
            yield {
                "top": "Reading",
                "files": {
                    "Reading": {"type": "record", "name": "Reading", "fields": [{"name": "unit", "type": "Unit"}, {"name": "measure", "type": "geo.Measure"}]},
                    "Unit": dict({"type": kind, "name": "Unit"}, **a),
                    "geo.Measure": {"type": "record", "name": "Measure", "namespace": "geo", "fields": [{"name": "value", "type": "double"}, {"name": "unit", "type": "Unit"}, {"name": "shown_in", "type": ["null", "Unit"]}]},
                    "geo.Unit": dict({"type": kind, "name": "Unit", "namespace": "geo"}, **b),
                },
                "data": [{"unit": va, "measure": {"value": 1.5, "unit": vb, "shown_in": vb}}],
                "missing": "geo.Unit",
            }
        yield {
            "top": "shop.Order",
            "files": {
                "shop.Order": {"type": "record", "name": "shop.Order", "fields": [{"name": "status", "type": "Status"}, {"name": "lines", "type": {"type": "array", "items": "Line"}}, {"name": "prev", "type": ["null", "shop.Status"]}]},
                "shop.Status": {"type": "enum", "name": "Status", "namespace": "shop", "symbols": ["NEW", "PAID"]},
                "shop.Line": {"type": "record", "name": "Line", "namespace": "shop", "fields": [{"name": "sku", "type": "string"}, {"name": "st", "type": "Status"}]},
            },
            "data": [{"status": "NEW", "lines": [{"sku": "a", "st": "PAID"}], "prev": "PAID"}],
            "missing": "shop.Line",
        }
        yield {
            "top": "Root",
            "files": {
                "Root": {"type": "record", "name": "Root", "fields": [{"name": "x", "type": "X"}, {"name": "y", "type": "Y"}]},
                "X": {"type": "record", "name": "X", "fields": [{"name": "y", "type": "Y"}]},
                "Y": {"type": "record", "name": "Y", "fields": [{"name": "z", "type": {"type": "map", "values": "Z"}}]},
                "Z": {"type": "fixed", "name": "Z", "size": 2},
            },
            "data": [{"x": {"y": {"z": {"k": b"ab"}}}, "y": {"z": {}}}],
            "missing": "Z",
        }

    # ------------------------------------------------------------------
    def _graph(self, files):
        """Resolve every file's definition with all names known -> (table of graph definitions)."""
        # full names are the file keys; build a table in which every file's type is a stub so references resolve
        stubs = {}
        for full, js in files.items():
            stubs[full] = {"k": "stub"}
        table = {}
        for full, js in files.items():
            t = dict(stubs)
            t.pop(full)
            node, _ = M.resolve(js, table=dict(t))
            if node["name"] != full:
                raise HarnessError(f"file {full} defines {node['name']}")
            table[full] = self._to_refs(node, full)
        return table

    def _to_refs(self, node, own):
        k = node["k"]
        if k == "record":
            return {"k": "record", "name": node["name"], "aliases": [], "fields": [dict(f, type=self._inner(f["type"])) for f in node["fields"]]}
        return node

    def _inner(self, node):
        k = node["k"]
        if k == "array":
            return {"k": "array", "items": self._inner(node["items"])}
        if k == "map":
            return {"k": "map", "values": self._inner(node["values"])}
        if k == "union":
            return {"k": "union", "branches": [self._inner(b) for b in node["branches"]]}
        if k in M.NAMED:
            raise HarnessError("nested definition inside a per-type file")
        return node

    def _dep_order(self, top, table, reverse=False):
        order = []

        def visit(n):
            if n in order:
                return
            deps = gen.reach(n, table)[1:]
            for m in (list(reversed(deps)) if reverse else deps):
                if m not in order and m != n:
                    visit(m)
            if n not in order:
                order.append(n)

        visit(top)
        return order

    def run_case(self, case):
        files = case["files"]
        top = case["top"]
        table = self._graph(files)
        labels = set()
        reachable = gen.reach(top, table)
        if len(reachable) >= 3:
            labels.add("types>=3")
        if len(reachable) >= 2:
            labels.add("files>=2")
        if len(reachable) >= 4:
            labels.add("files>=4")
        if len({M.split_full(n)[0] for n in reachable}) >= 2:
            labels.add("namespaces>=2")
        text = json.dumps(files)
        for n in reachable:
            short = M.split_full(n)[1]
            if n != short and f'"{n}"' in json.dumps([f for k, f in files.items()]):
                pass
        ir, itable = gen.linearize({"k": "ref", "name": top}, table)
        refs = self._count_refs(ir)
        if any(c >= 1 for c in refs.values()):
            labels.add("shared-type")
        if self._depth(ir) >= 2:
            labels.add("depth>=2")
        self._spelling_labels(files, labels)
        want = canon.canonical(ir)
        with tempfile.TemporaryDirectory(prefix="vc19") as td:
            for full, js in files.items():
                with open(os.path.join(td, full + ".avsc"), "w") as fo:
                    json.dump(js, fo)
            loaded = guard("load_schema", load_schema, os.path.join(td, top + ".avsc"))
            got = guard("canonical-form", to_parsing_canonical_form, loaded)
            if got != want:
                i = next((j for j in range(min(len(got), len(want))) if got[j] != want[j]), min(len(got), len(want)))
                raise Violation("load_schema-differs-from-inlined", f"at char {i}: loaded ...{got[max(0,i-40):i+60]!r} inlined ...{want[max(0,i-40):i+60]!r}; files={files!r:.500}")
            # the same through an explicit repository object (schema_path is then the full name, dots included)
            from fastavro.repository import FlatDictRepository
            labels.add("explicit-repo")
            repo = FlatDictRepository(td)
            loaded_r = guard("load_schema-with-repo", load_schema, top, repo=repo)
            got_r = guard("canonical-form", to_parsing_canonical_form, loaded_r)
            if got_r != want:
                raise Violation("load_schema-with-repo-differs", f"load_schema({top!r}, repo=...) gives {got_r!r:.300}, inlined {want!r:.300}")
            # the same repository object serves further loads: every other type as a root of its own, then the top again
            for other in [n for n in reachable if n != top][:3] + [top]:
                oir, _ = gen.linearize({"k": "ref", "name": other}, table)
                lo = guard("load_schema-with-repo", load_schema, other, repo=repo)
                go = guard("canonical-form", to_parsing_canonical_form, lo)
                if go != canon.canonical(oir):
                    raise Violation("load_schema-with-reused-repo-differs", f"second load through the same repository object: {other!r} gives {go!r:.300}, inlined {canon.canonical(oir)!r:.300}")
                labels.add("repo-object-reused")
            # a second repository object serving the loads in the opposite order: dependencies first, the top last
            repo2 = FlatDictRepository(td)
            for other in self._dep_order(top, table):
                oir, _ = gen.linearize({"k": "ref", "name": other}, table)
                lo = guard("load_schema-with-repo", load_schema, other, repo=repo2)
                go = guard("canonical-form", to_parsing_canonical_form, lo)
                if go != canon.canonical(oir):
                    raise Violation("load_schema-with-reused-repo-differs:dependencies-first", f"loading {other!r} through a repository object that already served its dependencies gives {go!r:.300}, inlined {canon.canonical(oir)!r:.300}")
            # ordered loading, dependencies first
            order = self._dep_order(top, table)
            labels.add("ordered")
            loaded_o = guard("load_schema_ordered", load_schema_ordered, [os.path.join(td, n + ".avsc") for n in order])
            got_o = guard("canonical-form", to_parsing_canonical_form, loaded_o)
            if got_o != want:
                i = next((j for j in range(min(len(got_o), len(want))) if got_o[j] != want[j]), min(len(got_o), len(want)))
                raise Violation("load_schema_ordered-differs-from-inlined", f"at char {i}: loaded ...{got_o[max(0,i-40):i+60]!r} inlined ...{want[max(0,i-40):i+60]!r}; order={order}")
            # another dependencies-first order (siblings visited in reverse), when there is one
            order2 = self._dep_order(top, table, reverse=True)
            if order2 != order:
                labels.add("ordered:second-order")
                lo2 = guard("load_schema_ordered", load_schema_ordered, [os.path.join(td, n + ".avsc") for n in order2])
                go2 = guard("canonical-form", to_parsing_canonical_form, lo2)
                if go2 != want:
                    raise Violation("load_schema_ordered-depends-on-order", f"order {order2} gives {go2!r:.300}, order {order} gives the inlined form {want!r:.300}")
            # same encodings as the inlined schema
            inlined_js = gen.render_plain(ir)
            for datum in case["data"]:
                a = self._enc(inlined_js, datum)
                for name, sch in (("load_schema", loaded), ("load_schema_ordered", loaded_o)):
                    b = self._enc(sch, datum)
                    if a != b:
                        raise Violation("loaded-schema-encodes-differently:" + name, f"datum {datum!r:.150}: inlined {a[1][:40].hex() if a[0]=='ok' else a} loaded {b[1][:40].hex() if b[0]=='ok' else b}")
                    if b[0] == "ok":
                        back = guard("read-own-output", fastavro.schemaless_reader, io.BytesIO(b[1]), sch)
                        back_i = guard("read-own-output", fastavro.schemaless_reader, io.BytesIO(a[1]), inlined_js)
                        if not B.same(back, back_i):
                            raise Violation("loaded-schema-decodes-differently:" + name, f"{back!r:.150} vs {back_i!r:.150}")
                fo = io.BytesIO()
                guard("write-container", fastavro.writer, fo, loaded, [datum])
                fo.seek(0)
                guard("read-container", lambda: list(fastavro.reader(fo)))
            # a missing file surfaces as an error naming the missing type
            missing = case.get("missing")
            if missing and missing in reachable and missing != top:
                labels.add("missing-file")
                os.remove(os.path.join(td, missing + ".avsc"))
                o = outcome(load_schema, os.path.join(td, top + ".avsc"))
                if o[0] == "ok":
                    raise Violation("missing-file-not-reported", f"load_schema succeeded although {missing}.avsc is missing")
                e = o[1]
                if not names_type(e, missing):
                    raise Violation("missing-file-error-names-other-type", f"{missing}.avsc is missing; error is {type(e).__name__}({str(e)[:200]!r}) name={getattr(e, 'name', None)!r}; files={list(files)}")
                # (through a repository object created after the deletion: one that was used before may legitimately remember
                # what it has read)
                o = outcome(load_schema, top, repo=FlatDictRepository(td))
                if o[0] == "ok":
                    raise Violation("missing-file-not-reported:repo", f"load_schema through a new repository object succeeded although {missing}.avsc is missing")
                if not names_type(o[1], missing):
                    raise Violation("missing-file-error-names-other-type:repo", f"{missing}.avsc is missing; load_schema(top, repo=...) raised {type(o[1]).__name__}({str(o[1])[:200]!r})")
        return labels

    def _enc(self, schema, datum):
        fo = io.BytesIO()
        try:
            fastavro.schemaless_writer(fo, schema, datum)
            return ("ok", fo.getvalue())
        except Exception as e:
            return ("exc", type(e).__name__)

    def _count_refs(self, ir, acc=None):
        if acc is None:
            acc = {}
        k = ir["k"]
        if k == "ref":
            acc[ir["name"]] = acc.get(ir["name"], 0) + 1
        elif k == "record":
            for f in ir["fields"]:
                self._count_refs(f["type"], acc)
        elif k == "array":
            self._count_refs(ir["items"], acc)
        elif k == "map":
            self._count_refs(ir["values"], acc)
        elif k == "union":
            for b in ir["branches"]:
                self._count_refs(b, acc)
        return acc

    def _depth(self, ir, d=0):
        k = ir["k"]
        if k == "record":
            return max([self._depth(f["type"], d + 1) for f in ir["fields"]] + [d])
        if k == "array":
            return self._depth(ir["items"], d)
        if k == "map":
            return self._depth(ir["values"], d)
        if k == "union":
            return max(self._depth(b, d) for b in ir["branches"])
        return d

    def _spelling_labels(self, files, labels):
        def walk(js, where="field"):
            if isinstance(js, str):
                if js not in M.PRIMS:
                    labels.add("qualified-ref" if "." in js else "relative-ref")
                    labels.add("ref@" + where)
            elif isinstance(js, list):
                for b in js:
                    walk(b, "union")
            elif isinstance(js, dict):
                t = js.get("type")
                if t == "record":
                    for f in js["fields"]:
                        walk(f["type"], "field")
                elif t == "array":
                    walk(js["items"], "array")
                elif t == "map":
                    walk(js["values"], "map")
        for js in files.values():
            walk(js)

    def nontrivial(self, labels):
        return bool(labels & {"types>=3", "shared-type"})


CHECK = C19()

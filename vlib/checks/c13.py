"""C13 - canonical form equals the spec transformation; invariant under cosmetic edits."""
import copy
import io
import json

import fastavro
from fastavro.schema import to_parsing_canonical_form as cf
from hypothesis import strategies as st

from .. import gen, bincase
from ..ref import model as M
from ..ref import binary as B
from ..ref import canon
from ..runner import Check, Violation, guard, outcome, HarnessError


def null_ns_nested(node, enclosing=""):
    """True iff some named type in the null namespace is nested in a namespaced type
    (not expressible in canonical form: the spec drops `namespace`)."""
    k = node["k"]
    if k in M.NAMED:
        tns, _ = M.split_full(node["name"])
        if enclosing and not tns:
            return True
        if k == "record":
            return any(null_ns_nested(f["type"], tns) for f in node["fields"])
        return False
    if k == "array":
        return null_ns_nested(node["items"], enclosing)
    if k == "map":
        return null_ns_nested(node["values"], enclosing)
    if k == "union":
        return any(null_ns_nested(b, enclosing) for b in node["branches"])
    return False


class C13(Check):
    pid = "C13"
    level = "exploration"
    rule = (
        "Generated valid schemas (all naming features, docs, aliases, defaults, order, custom and logicalType attributes, "
        "shuffled attribute order). (1) to_parsing_canonical_form(s) must equal, as a string, the reference canonical form "
        "built from the construction truth; (2) a cosmetic variant of the same IR (other name spellings, attributes "
        "added/removed, aliases, defaults dropped, logical annotations, key order) must have the same form; (3) fixed point "
        "cf(json.loads(cf(s)))==cf(s); (4) cf(s) parses, and generated data written under s decode under cf(s) to the same "
        "raw value and vice versa. (3)/(4) skip, by construction and counted, schemas with a null-namespace type nested in "
        "a namespaced type (inexpressible in canonical form). Anchors: Apache schema-test vectors in the reference "
        "self-test. Non-trivial = schema with a named type; distinct by digest."
    )
    assumptions = ["'error' records are not generated (the specification does not define their canonical type name)"]
    required_labels = ["s:record", "s:enum", "s:fixed", "s:ref", "s:namespaced", "variant:differs-textually", "fixed-point", "cross-decode", "excluded:null-ns-nested"]
    quick = (3000, 1)
    thorough = (12000, 16)

    def __init__(self):
        self.feat = gen.Features(attrs=True, shuffle_keys=True, big=False, dict_prims=0.15, dict_null=True)
        self.vfeat = gen.Features(attrs=True, shuffle_keys=True, big=False, dict_prims=0.3, dict_null=True)

    def selftest(self):
        B.selftest()
        canon.selftest()

    def strategy(self, tier):
        feat, vfeat = self.feat, self.vfeat

        @st.composite
        def cases(draw):
            d = gen.D(draw)
            ir, table, js = gen.build_schema(d, feat)
            gen.check_truth(ir, table, js)
            ir2, table2 = gen.cosmetic_variant(d, ir, table)
            js2 = gen.Renderer(d, vfeat, table2).render(ir2, "")
            dg = gen.DataGen(d, gen.Features(omit=0.0, big=False, extra_keys=0.0), table)
            data = [dg.gen(ir, 5) for _ in range(d.rng(0, 2))]
            return {"schema": js, "variant": js2, "data": data}

        return cases()

    def fixed_cases(self, tier):
        yield {"schema": {"type": "record", "name": "x.y.Z", "namespace": "ignored", "doc": "d", "fields": [
            {"name": "f", "type": {"type": "enum", "name": "E", "symbols": ["A"], "doc": "x", "aliases": ["F"]}, "default": "A", "order": "ignore"},
            {"name": "g", "type": ["null", "E", {"type": "fixed", "name": "q.F", "size": 12, "logicalType": "decimal", "precision": 4}]}]},
            "variant": {"fields": [{"type": {"symbols": ["A"], "name": "x.y.E", "type": "enum"}, "name": "f"},
                                   {"type": ["null", "x.y.E", {"size": 12, "name": "F", "namespace": "q", "type": "fixed"}], "name": "g"}], "name": "Z", "namespace": "x.y", "type": "record"},
            "data": [{"f": "A", "g": None}]}

    def run_case(self, case):
        js = case["schema"]
        node, table = M.resolve(js)
        labels = gen.schema_labels(node, table)
        want = canon.canonical(node)
        got = guard("canonical-form", cf, js)
        if got != want:
            i = next((j for j in range(min(len(got), len(want))) if got[j] != want[j]), min(len(got), len(want)))
            raise Violation("canonical-form-differs", f"at char {i}: fastavro ...{got[max(0,i-30):i+40]!r} reference ...{want[max(0,i-30):i+40]!r}; schema={js!r:.400}")
        # parsed form gives the same text
        got_p = guard("canonical-form-of-parsed", lambda: cf(fastavro.parse_schema(js)))
        if got_p != want:
            raise Violation("canonical-form-parsed-differs", f"parsed schema gives {got_p!r:.200}, raw gives {want!r:.200}")
        # a schema that only carries the marker of an earlier parse (files and dumps of older versions: the marker without
        # the embedded name table) is re-parsed: the marker is one more custom attribute
        if isinstance(js, dict):
            legacy = dict(copy.deepcopy(js), __fastavro_parsed=True)
            labels.add("legacy-marker")
            gl = guard("canonical-form", cf, legacy)
            if gl != want:
                raise Violation("cosmetic-edit-changes-form:legacy-marker", f"with \"__fastavro_parsed\": true added (and no embedded name table) the form is {gl!r:.300}, without it {want!r:.300}")
            parsed_l = guard("parse-valid-schema", fastavro.parse_schema, js)
            if isinstance(parsed_l, dict) and "__named_schemas" in parsed_l:
                stripped = {k: v for k, v in copy.deepcopy(parsed_l).items() if k != "__named_schemas"}
                gl2 = guard("canonical-form", cf, stripped)
                if gl2 != want:
                    raise Violation("cosmetic-edit-changes-form:legacy-parsed", f"the parsed schema without its embedded name table gives {gl2!r:.300}, the raw schema {want!r:.300}")
        # cosmetic variant
        v = case.get("variant")
        if v is not None:
            if json.dumps(v, sort_keys=True) != json.dumps(js, sort_keys=True):
                labels.add("variant:differs-textually")
            gv = guard("canonical-form", cf, v)
            if gv != want:
                i = next((j for j in range(min(len(gv), len(want))) if gv[j] != want[j]), min(len(gv), len(want)))
                raise Violation("cosmetic-edit-changes-form", f"at char {i}: variant ...{gv[max(0,i-30):i+40]!r} original ...{want[max(0,i-30):i+40]!r}; variant={v!r:.400}")
        if null_ns_nested(node):
            labels.add("excluded:null-ns-nested")
            return labels
        # fixed point
        reparsed = json.loads(got)
        again = guard("canonical-form-of-canonical-form", cf, reparsed)
        labels.add("fixed-point")
        if again != got:
            raise Violation("not-a-fixed-point", f"cf(cf(s)) = {again!r:.300} differs from cf(s) = {got!r:.300}")
        # same binary encoding under s and cf(s)
        cnode, ctable = M.resolve(reparsed)
        if M.strip(cnode) != M.strip(node):
            raise Violation("canonical-form-describes-other-schema", f"cf(s) resolves to a different structure: {got!r:.300}")
        for datum in case["data"]:
            labels.add("cross-decode")
            gen.data_labels(datum, labels)
            fo = io.BytesIO()
            guard("write-conforming", fastavro.schemaless_writer, fo, js, datum)
            a = fo.getvalue()
            fo = io.BytesIO()
            guard("write-under-canonical-form", fastavro.schemaless_writer, fo, reparsed, datum)
            b = fo.getvalue()
            va = guard("read-under-canonical-form", fastavro.schemaless_reader, io.BytesIO(a), reparsed)
            vb = guard("read-own-output", fastavro.schemaless_reader, io.BytesIO(b), js)
            try:
                ra, _ = B.decode(node, table, a)
                rb, _ = B.decode(node, table, b)
            except B.RefError:
                continue  # C02's concern
            if not B.same(va, ra):
                raise Violation("canonical-form-decodes-differently", f"bytes written under s decode under cf(s) to {va!r:.150}, expected {ra!r:.150}; schema={js!r:.300}")
            if not B.same(vb, rb):
                raise Violation("canonical-form-encodes-differently", f"bytes written under cf(s) decode under s to {vb!r:.150}, expected {rb!r:.150}; schema={js!r:.300}")
        return labels

    def nontrivial(self, labels):
        return bool(labels & {"s:record", "s:enum", "s:fixed"})


CHECK = C13()

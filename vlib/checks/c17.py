"""C17 - results depend only on arguments: no state leaks across calls, inputs intact."""
import copy
import io
import json
import os
import pickle
import random as _random
import re
import shutil
import struct
import sys
import tempfile

import fastavro
from hypothesis import strategies as st

from .. import gen, tagged
from ..ref import model as M
from ..ref import binary as B
from ..ref import container as RC
from ..ref import jsonenc as J
from ..runner import Check, Violation, guard, outcome, HarnessError

MARK = b"\x17" * 16

# ----------------------------------------------------------------------------- schema pool with clashing names
DOGCAT1 = [{"type": "record", "name": "Dog", "fields": [{"name": "legs", "type": "int"}, {"name": "tricks", "type": "int", "default": 0}, {"name": "walks", "type": "int", "default": 0}]},
           {"type": "record", "name": "Cat", "fields": [{"name": "legs", "type": "int"}, {"name": "lives", "type": "int", "default": 9}]}]
DOGCAT2 = [{"type": "record", "name": "Dog", "fields": [{"name": "legs", "type": "int"}]},
           {"type": "record", "name": "Cat", "fields": [{"name": "legs", "type": "int"}, {"name": "tricks", "type": "int", "default": 0}, {"name": "walks", "type": "int", "default": 0}, {"name": "lives", "type": "int", "default": 9}]}]
ITEM_DEF = {"type": "record", "name": "Order", "fields": [{"name": "item", "type": {"type": "record", "name": "Item", "fields": [{"name": "sku", "type": "string"}]}}]}
ITEM_REF = {"type": "record", "name": "Order", "fields": [{"name": "item", "type": "Item"}]}  # undefined on its own
ITEM_DEF2 = {"type": "record", "name": "Basket", "fields": [{"name": "item", "type": {"type": "record", "name": "Item", "fields": [{"name": "sku", "type": "long"}, {"name": "n", "type": "int", "default": 1}]}}]}
POOL = [
    ({"type": "record", "name": "T", "fields": [{"name": "a", "type": "int"}]}, [{"a": 1}, {"a": -5}], {"a": "x"}),
    ({"type": "record", "name": "T", "fields": [{"name": "a", "type": "string"}, {"name": "b", "type": "int", "default": 0}]}, [{"a": "s"}, {"a": "", "b": 2}], {"a": 1}),
    ({"type": "record", "name": "T", "namespace": "ns", "fields": [{"name": "t", "type": ["null", "ns.T"], "default": None}, {"name": "e", "type": {"type": "enum", "name": "E", "symbols": ["A", "B"]}}]}, [{"e": "A"}, {"t": {"e": "B"}, "e": "A"}], {"e": "C"}),
    ({"type": "enum", "name": "E", "symbols": ["A", "B"]}, ["A", "B"], "C"),
    ({"type": "enum", "name": "E", "symbols": ["B", "A", "C"], "default": "C"}, ["C", "A"], "D"),
    ({"type": "fixed", "name": "F", "size": 2}, [b"ab"], b"abcd"),
    ({"type": "fixed", "name": "F", "size": 4}, [b"abcd"], b"ab"),
    (DOGCAT1, [{"legs": 4, "tricks": 7, "walks": 2}, {"legs": 4, "lives": 3}, {"legs": 2}], {"legs": "x"}),
    (DOGCAT2, [{"legs": 4, "tricks": 7, "walks": 2}, {"legs": 4, "lives": 3}, {"legs": 2}], {"legs": "x"}),
    (ITEM_DEF, [{"item": {"sku": "A-1"}}], {"item": 5}),
    (ITEM_REF, [{"item": {"sku": "A-1"}}], {"item": 5}),
    (ITEM_DEF2, [{"item": {"sku": 7}}, {"item": {"sku": 8, "n": 2}}], {"item": {"sku": "x"}}),
    ({"type": "record", "name": "Dec", "fields": [{"name": "d", "type": {"type": "bytes", "logicalType": "decimal", "precision": 5, "scale": 2}}]}, [{"d": __import__("decimal").Decimal("123.45")}], {"d": "x"}),
    ({"type": "record", "name": "Dec", "fields": [{"name": "d", "type": {"type": "bytes", "logicalType": "decimal", "precision": 30, "scale": 2}}]}, [{"d": __import__("decimal").Decimal("1234567890123456789012345678.90")}], {"d": 1.5}),
    ({"type": "record", "name": "Arr", "fields": [{"name": "xs", "type": {"type": "array", "items": "int"}, "default": [1, 2]}, {"name": "m", "type": {"type": "map", "values": "string"}, "default": {"k": "v"}}]}, [{}, {"xs": [3]}], {"xs": 5}),
    ({"type": "record", "name": "Bad", "fields": [{"name": "x", "type": "int", "default": "notint"}]}, [{"x": 1}], {}),
    ({"type": "record", "name": "Nest", "fields": [{"name": "xss", "type": {"type": "array", "items": {"type": "array", "items": "int"}}, "default": [[1, 2], [3]]},
                                                   {"name": "ma", "type": {"type": "map", "values": {"type": "array", "items": "string"}}, "default": {"k": ["a", "b"]}},
                                                   {"name": "rd", "type": {"type": "record", "name": "Inner", "fields": [{"name": "flags", "type": {"type": "array", "items": "boolean"}}]}, "default": {"flags": [True, False]}}]},
     [{}, {"xss": [[9]]}], {"xss": 5}),
    ({"type": "record", "name": "Dec", "fields": [{"name": "d", "type": {"type": "bytes", "logicalType": "decimal", "precision": 8}}]}, [{"d": __import__("decimal").Decimal("1234")}, {"d": __import__("decimal").Decimal("-7")}], {"d": "x"}),
]

JREAD_FIXED = {t.strip() for t in ['{}', '{"a": 1}', '{"a": "s"}', '"A"', '{}\n{}', '{"e": "A"}', '{"legs": 4}', '{"xs": [5], "m": {}}', '{"m": {"q": "r"}}', '{"item": {"sku": "z"}}', '{"xss": [[7]]}\n{}\n{}']}
def _wire(js, datum):
    """The pool's data in the form the reference encoder takes: a Decimal under a bytes/decimal field becomes the
    two's-complement bytes of its unscaled value (computed exactly, without a decimal context)."""
    if not (isinstance(js, dict) and js.get("type") == "record" and isinstance(datum, dict)):
        return datum
    out = dict(datum)
    for f in js["fields"]:
        t = f["type"]
        v = out.get(f["name"])
        if isinstance(t, dict) and t.get("logicalType") == "decimal" and isinstance(v, __import__("decimal").Decimal):
            sign, digits, exp = v.as_tuple()
            u = int("".join(map(str, digits)) or "0") * 10 ** (exp + t.get("scale", 0))
            u = -u if sign else u
            out[f["name"]] = u.to_bytes((u.bit_length() + 8) // 8, "big", signed=True)
    return out


def _pool_encoding(i, k=0):
    """Reference encoding of POOL[i]'s k-th good datum under POOL[i]'s own schema (None when it has none)."""
    js, good, _ = POOL[i]
    try:
        node, table = M.resolve(copy.deepcopy(js))
        return B.encode(node, table, _wire(js, good[k % len(good)]))[0]
    except Exception:
        return None


def _same_name(js):
    """Indices of pool entries that define the same top-level name differently."""
    if not isinstance(js, dict) or "name" not in js:
        return []
    return [i for i, (o, _, _) in enumerate(POOL) if isinstance(o, dict) and o.get("name") == js["name"] and o.get("namespace") == js.get("namespace") and o != js]


_ADDR = re.compile(r"0x[0-9a-fA-F]+")
_TMP = re.compile(r"/tmp/[\w./-]+")


def scrub(msg):
    return _TMP.sub("<tmp>", _ADDR.sub("<addr>", str(msg)))[:400]


def strip_parsed(x, depth=0):
    if depth > 30:
        return "<deep>"
    if isinstance(x, dict):
        return {k: strip_parsed(v, depth + 1) for k, v in x.items() if k != "__named_schemas"}
    if isinstance(x, list):
        return [strip_parsed(v, depth + 1) for v in x]
    return x


def run_call(call, slots):
    """Execute one public call; returns (description, mutated_argument_or_None)."""
    op = call["op"]

    def schema_arg():
        s = call["schema"]
        if isinstance(s, dict) and set(s) == {"slot"}:
            return slots[s["slot"]], ("slot", tagged.dumps(slots[s["slot"]]))
        return s, copy.deepcopy(s)

    try:
        if op == "parse":
            before = copy.deepcopy(call["schema"])
            kw = dict(call.get("opts") or {})
            if "nsd" in call:
                # caller-supplied named-schema dictionary shared by several parse calls of the history
                kw["named_schemas"] = slots.setdefault(("nsd", call["nsd"]), {})
            res = fastavro.parse_schema(call["schema"], **kw)
            slots[call["slot"]] = res
            mut = None if tagged.enc(before) == tagged.enc(call["schema"]) else "schema"
            out = {"parsed": strip_parsed(res)}
            if "nsd" in call:
                out["named_schemas_keys"] = sorted(kw["named_schemas"])
            return ("ok", tagged.enc(out)), mut
        if op == "reparse":
            obj = slots[call["schema"]["slot"]]
            before = tagged.dumps(obj)
            res = fastavro.parse_schema(obj)
            mut = None if tagged.dumps(obj) == before else "parsed-schema-object"
            return ("ok", tagged.enc(strip_parsed(res))), mut
        if op == "fingerprint":
            return ("ok", fastavro.schema.fingerprint(call["text"], call["algo"])), None
        if op == "cread":
            rbefore = copy.deepcopy(call.get("reader"))
            rd = fastavro.reader(io.BytesIO(call["data"]), reader_schema=call.get("reader"), **(call.get("opts") or {}))
            recs = list(rd)
            if tagged.enc(rbefore) != tagged.enc(call.get("reader")):
                return ("ok", "<reader schema modified>"), "reader-schema"
            return ("ok", tagged.enc({"records": recs, "codec": rd.codec, "schema": strip_parsed(rd.writer_schema)})), None
        if op == "load":
            td = tempfile.mkdtemp(prefix="vc17")
            try:
                for name, js in call["files"].items():
                    with open(os.path.join(td, name + ".avsc"), "w") as fo:
                        json.dump(js, fo)
                res = fastavro.schema.load_schema(os.path.join(td, call["top"] + ".avsc"))
                return ("ok", tagged.enc(strip_parsed(res))), None
            finally:
                shutil.rmtree(td, ignore_errors=True)
        schema, schema_before = schema_arg()
        args_before = {k: copy.deepcopy(call[k]) for k in ("datum", "records", "reader") if call.get(k) is not None}
        opts = dict(call.get("opts") or {})
        if op == "swrite":
            fo = io.BytesIO()
            fastavro.schemaless_writer(fo, schema, call["datum"], **opts)
            res = fo.getvalue()
        elif op == "sread":
            res = fastavro.schemaless_reader(io.BytesIO(call["data"]), schema, call.get("reader"), **opts)
        elif op == "cwrite":
            fo = io.BytesIO()
            fastavro.writer(fo, schema, call["records"], codec=call.get("codec", "null"), sync_marker=MARK, **opts)
            res = fo.getvalue()
        elif op == "jwrite":
            so = io.StringIO()
            fastavro.json_writer(so, schema, call["records"], **opts)
            res = so.getvalue()
        elif op == "jread":
            res = list(fastavro.json_reader(io.StringIO(call["text"]), schema))
        elif op == "validate":
            res = fastavro.validate(call["datum"], schema, raise_errors=call.get("raise", False), **opts)
        elif op == "canon":
            res = fastavro.schema.to_parsing_canonical_form(schema)
        elif op == "generate":
            state = _random.getstate()
            try:
                _random.seed(call["seed"])
                res = list(fastavro.utils.generate_many(schema, call["n"]))
            finally:
                _random.setstate(state)
        else:
            raise HarnessError(op)
        mut = None
        if isinstance(schema_before, tuple) and schema_before[0] == "slot":
            if tagged.dumps(schema) != schema_before[1]:
                mut = "parsed-schema-object"
        elif schema_before is not None and tagged.enc(schema_before) != tagged.enc(call["schema"]):
            mut = "schema"
        for k, v in args_before.items():
            if tagged.enc(v) != tagged.enc(call[k]):
                mut = k
        return ("ok", tagged.enc(res)), mut
    except HarnessError:
        raise
    except RecursionError as e:
        return ("exc", "RecursionError", ""), None
    except Exception as e:  # noqa
        mut = None
        try:
            s = call.get("schema")
            if s is not None and "schema_before" in dir() and schema_before is not None:
                if isinstance(schema_before, tuple) and schema_before[0] == "slot":
                    if tagged.dumps(slots[s["slot"]]) != schema_before[1]:
                        mut = "parsed-schema-object"
                elif tagged.enc(schema_before) != tagged.enc(s):
                    mut = "schema"
            if "args_before" in dir():
                # a call that fails midway must not leave its data arguments modified either
                for k, v in args_before.items():
                    if tagged.enc(v) != tagged.enc(call[k]):
                        mut = k + "-after-failure"
        except Exception:
            pass
        return ("exc", type(e).__name__, scrub(e)), mut


class ForkServer:
    """A pristine post-import process that forks one child per request: a child is a fresh interpreter
    (fastavro imported, no call made yet) at the price of a fork."""

    def __init__(self):
        rq_r, rq_w = os.pipe()
        rs_r, rs_w = os.pipe()
        pid = os.fork()
        if pid == 0:
            os.close(rq_w)
            os.close(rs_r)
            try:
                self._serve(rq_r, rs_w)
            finally:
                os._exit(0)
        os.close(rq_r)
        os.close(rs_w)
        self.pid, self.w, self.r = pid, rq_w, rs_r

    @staticmethod
    def _read(fd, n):
        buf = b""
        while len(buf) < n:
            c = os.read(fd, n - len(buf))
            if not c:
                raise EOFError
            buf += c
        return buf

    def _serve(self, rq, rs):
        while True:
            try:
                n = struct.unpack(">I", self._read(rq, 4))[0]
            except EOFError:
                return
            payload = self._read(rq, n)
            cr, cw = os.pipe()
            pid = os.fork()
            if pid == 0:
                os.close(cr)
                try:
                    chain = pickle.loads(payload)
                    if isinstance(chain, tuple) and chain and chain[0] == "call":
                        import importlib
                        mod = importlib.import_module(chain[1])
                        out = getattr(mod, chain[2])(*chain[3])
                    else:
                        slots = {}
                        out = None
                        for call in chain:
                            out, _ = run_call(call, slots)
                    data = pickle.dumps(out)
                except BaseException as e:  # noqa
                    data = pickle.dumps(("harness", repr(e)))
                os.write(cw, struct.pack(">I", len(data)) + data)
                os._exit(0)
            os.close(cw)
            try:
                m = struct.unpack(">I", self._read(cr, 4))[0]
                data = self._read(cr, m)
            except EOFError:
                data = pickle.dumps(("harness", "child died"))
            os.close(cr)
            os.waitpid(pid, 0)
            os.write(rs, struct.pack(">I", len(data)) + data)

    def call(self, chain):
        payload = pickle.dumps(chain)
        os.write(self.w, struct.pack(">I", len(payload)) + payload)
        n = struct.unpack(">I", self._read(self.r, 4))[0]
        return pickle.loads(self._read(self.r, n))

    def close(self):
        try:
            os.close(self.w)
            os.close(self.r)
            os.waitpid(self.pid, 0)
        except Exception:
            pass


class C17(Check):
    pid = "C17"
    level = "exploration"
    rule = (
        "Generated histories of 2-12 public calls (parse_schema, schemaless/container/JSON write and read, validate, "
        "canonical form, fingerprint, generate_many under a fixed seed, load_schema) over a pool of schemas that deliberately "
        "re-use the same type names with different definitions (T, ns.T, E, F, Dog/Cat unions with different field sets, an "
        "Order referring to an Item that only other schemas define, decimals of different precision, array/map defaults, an "
        "invalid default) plus generated schemas from a small name pool; parsed-schema objects are kept in slots and re-used by "
        "later calls; calls include ones that raise midway. The history runs in ONE long-lived interpreter (state accumulates "
        "across all histories of the run). Every call is also executed first-thing in a fresh interpreter - a child forked from "
        "a pristine post-import fork server (after re-creating the parsed objects it uses) - and the outcomes (value / bytes / "
        "exception class and scrubbed message) must be equal. Arguments are deep-copied before each call and compared "
        "afterwards. Non-trivial = history with a name clash, a failing call followed by a success, or a re-used parsed object."
    )
    assumptions = ["a fork of a pristine post-import process stands for a fresh interpreter (a leak that exists only at import time is invisible)", "random.seed is set identically before generate_many; sync markers are explicit"]
    required_labels = ["name-clash", "failure-then-success", "reused-parsed-object", "op:parse", "op:swrite", "op:sread", "op:cwrite", "op:cread", "op:jwrite", "op:jread", "op:validate", "op:canon", "op:generate", "op:load", "op:fingerprint", "op:reparse", "with-options", "with-reader-schema", "shared-named-schemas-dict", "json-text-from-schema"]
    quick = (350, 1)
    thorough = (2500, 16)

    def __init__(self):
        self.server = None
        self.owner = None
        self.feat = gen.Features(big=False, exotic_seqs=False, extra_keys=0.0, max_depth=3, max_named=4, ns_pool=["", "ns"], recursion=False, empty_records=False)

    def selftest(self):
        B.selftest()

    def _server(self):
        if self.server is None or self.owner != os.getpid():
            self.server = ForkServer()
            self.owner = os.getpid()
        return self.server

    # ------------------------------------------------------------------ generation
    def _pick_schema(self, d):
        if d.p(0.75):
            i = d.i(len(POOL))
            js, good, bad = POOL[i]
            node, table = None, None
            try:
                node, table = M.resolve(copy.deepcopy(js))
            except M.SchemaError:
                pass
            return copy.deepcopy(js), [copy.deepcopy(g) for g in good], copy.deepcopy(bad), node, table
        ir, table, js = gen.build_schema(d, self.feat)
        dg = gen.DataGen(d, self.feat, table)
        good = [dg.gen(ir, 4) for _ in range(2)]
        return js, good, d.choice([None, 5, "s", {"zz": 1}]), ir, table

    def strategy(self, tier):
        @st.composite
        def histories(draw):
            d = gen.D(draw)
            calls = []
            n = d.rng(2, 12)
            slots = {}
            for _ in range(n):
                js, good, bad, node, table = self._pick_schema(d)
                op = d.weighted([("swrite", 5), ("parse", 5), ("validate", 4), ("sread", 4), ("cwrite", 3), ("cread", 3), ("jwrite", 3), ("jread", 2), ("canon", 3), ("generate", 2), ("fingerprint", 1), ("load", 2)])
                if op == "parse" and slots and d.p(0.2):
                    op = "reparse"
                use_slot = slots and (op == "reparse" or d.p(0.45)) and op not in ("parse", "fingerprint", "load", "cread")
                if use_slot:
                    k = d.choice(sorted(slots))
                    js, good, bad, node, table = slots[k]
                    schema = {"slot": k}
                else:
                    schema = js
                datum = bad if d.p(0.25) else d.choice(good)
                enc = None
                if node is not None and op in ("sread", "cread", "jread"):
                    try:
                        enc = B.encode(node, table, _wire(js, d.choice(good)))[0]
                    except Exception:
                        enc = None
                    others = _same_name(js)
                    if others and op in ("sread", "cread") and d.p(0.25):
                        # bytes produced under another definition of the same type name (wider decimal, other fixed
                        # size, other field types): whatever the call makes of them, it must make the same of them
                        # in a fresh interpreter
                        enc = _pool_encoding(d.choice(others), d.rng(0, 1)) or enc
                ropts = {}
                if d.p(0.35):
                    ropts = d.choice([{"return_record_name": True}, {"return_named_type": True}, {"return_record_name": True, "return_record_name_override": True},
                                      {"return_named_type": True, "return_named_type_override": True}, {"handle_unicode_errors": "replace"}])
                wopts = {}
                if d.p(0.35):
                    wopts = d.choice([{"strict": True}, {"strict_allow_default": True}, {"disable_tuple_notation": True}, {"strict": True, "disable_tuple_notation": True}])
                reader = None
                if op in ("sread", "cread") and d.p(0.4):
                    # a reader schema: another definition of the same names (pool neighbours) or the same schema as a copy
                    reader = copy.deepcopy(js) if d.p(0.3) else copy.deepcopy(POOL[d.i(len(POOL))][0])
                if op == "parse":
                    k = d.rng(0, 2)
                    slots[k] = (js, good, bad, node, table)
                    c = {"op": "parse", "schema": js, "slot": k}
                    if d.p(0.3):
                        c["nsd"] = d.rng(0, 1)
                    if d.p(0.15):
                        c["opts"] = {"expand": True}
                    calls.append(c)
                elif op == "reparse":
                    calls.append({"op": "reparse", "schema": schema})
                elif op == "swrite":
                    calls.append({"op": "swrite", "schema": schema, "datum": datum, "opts": wopts})
                elif op == "validate":
                    calls.append({"op": "validate", "schema": schema, "datum": datum, "raise": d.p(0.4), "opts": d.choice([{}, {}, {"strict": True}, {"disable_tuple_notation": True}])})
                elif op == "sread":
                    data = enc if enc is not None else b"\x02"
                    if d.p(0.2):
                        data = data[: max(0, len(data) - 1)]
                    calls.append({"op": "sread", "schema": schema, "data": data, "reader": reader, "opts": ropts})
                elif op == "cwrite":
                    recs = [d.choice(good) for _ in range(d.rng(0, 3))] + ([bad] if d.p(0.2) else [])
                    calls.append({"op": "cwrite", "schema": schema, "records": recs, "codec": d.choice(["null", "deflate"]), "opts": wopts})
                elif op == "cread":
                    if enc is None:
                        data = b"Obj\x01garbage"
                    else:
                        data = RC.write([([("avro.schema", json.dumps(js).encode())], False)], MARK, [(1, enc)], "null")[0]
                    calls.append({"op": "cread", "data": data, "reader": reader, "opts": ropts})
                elif op == "jwrite":
                    calls.append({"op": "jwrite", "schema": schema, "records": [d.choice(good) for _ in range(d.rng(1, 2))], "opts": d.choice([{}, {}, {"write_union_type": False}, {"validator": True}])})
                elif op == "jread" and node is not None and d.p(0.6):
                    # a document that fits the schema: the specification's JSON encoding of a conforming datum
                    try:
                        objs = [J.encode(node, table, d.choice(good), B.Picker(fn=B.first_conforming)) for _ in range(d.rng(1, 2))]
                        top = M.deref(node, table)
                        if top["k"] == "record":
                            # keys that have a default may be absent: the decoder then takes the schema's default object
                            for o in objs:
                                for f in top["fields"]:
                                    if "default" in f and d.p(0.5):
                                        o.pop(f["name"], None)
                        docs = [json.dumps(o) for o in objs]
                    except Exception:
                        docs = ["{}"]
                    calls.append({"op": "jread", "schema": schema, "text": "\n".join(docs)})
                elif op == "jread":
                    calls.append({"op": "jread", "schema": schema, "text": d.choice(['{}', '{"a": 1}', '{"a": "s"}', '"A"', '{}\n{}', '{"e": "A"}', '{"legs": 4}', '{"xs": [5], "m": {}}', '{"m": {"q": "r"}}', '{"item": {"sku": "z"}}', '{"xss": [[7]]}\n{}\n{}'])})
                elif op == "canon":
                    calls.append({"op": "canon", "schema": schema})
                elif op == "generate":
                    calls.append({"op": "generate", "schema": schema, "n": d.rng(0, 2), "seed": d.rng(0, 50)})
                elif op == "fingerprint":
                    calls.append({"op": "fingerprint", "text": json.dumps(js), "algo": d.choice(["CRC-64-AVRO", "md5", "SHA-256", "nope"])})
                else:
                    files = {"Order": copy.deepcopy(ITEM_REF), "Item": {"type": "record", "name": "Item", "fields": [{"name": "sku", "type": d.choice(["string", "long"])}]}}
                    if d.p(0.3):
                        del files["Item"]
                    calls.append({"op": "load", "files": files, "top": "Order"})
            return {"calls": calls}

        return histories()

    def fixed_cases(self, tier):
        # two directories define the same type name differently; a leaf loaded on its own, then a schema that refers to it
        item_s = {"type": "record", "name": "Item", "fields": [{"name": "sku", "type": "string"}]}
        item_l = {"type": "record", "name": "Item", "fields": [{"name": "sku", "type": "long"}]}
        yield {"calls": [{"op": "load", "files": {"Order": copy.deepcopy(ITEM_REF), "Item": item_s}, "top": "Order"}, {"op": "load", "files": {"Order": copy.deepcopy(ITEM_REF), "Item": item_l}, "top": "Order"},
                         {"op": "load", "files": {"Order": copy.deepcopy(ITEM_REF), "Item": item_s}, "top": "Order"}]}
        yield {"calls": [{"op": "load", "files": {"Item": item_s}, "top": "Item"}, {"op": "load", "files": {"Order": copy.deepcopy(ITEM_REF), "Item": item_l}, "top": "Order"},
                         {"op": "load", "files": {"Order": copy.deepcopy(ITEM_REF)}, "top": "Order"}]}
        # a parsed object with optional attributes left out (decimal without scale), re-used by every kind of writer
        for op, arg in (("swrite", {"datum": copy.deepcopy(POOL[17][1][0])}), ("cwrite", {"records": copy.deepcopy(POOL[17][1]), "codec": "null"}), ("jwrite", {"records": copy.deepcopy(POOL[17][1])}),
                        ("validate", {"datum": copy.deepcopy(POOL[17][1][0]), "raise": False})):
            yield {"calls": [{"op": "parse", "schema": copy.deepcopy(POOL[17][0]), "slot": 0}, dict({"op": op, "schema": {"slot": 0}}, **arg), {"op": "canon", "schema": {"slot": 0}}]}
        # nested containers as defaults of absent JSON keys, raw and through a re-used parsed object
        yield {"calls": [{"op": "jread", "schema": copy.deepcopy(POOL[16][0]), "text": "{}\n{}"}, {"op": "parse", "schema": copy.deepcopy(POOL[16][0]), "slot": 0},
                         {"op": "jread", "schema": {"slot": 0}, "text": "{}"}, {"op": "jread", "schema": {"slot": 0}, "text": "{}\n{}"}]}
        yield {"calls": [{"op": "swrite", "schema": copy.deepcopy(DOGCAT2), "datum": {"legs": 2}}, {"op": "swrite", "schema": copy.deepcopy(DOGCAT1), "datum": {"legs": 4, "tricks": 7, "walks": 2}}]}
        yield {"calls": [{"op": "cread", "data": RC.write([([("avro.schema", json.dumps(ITEM_DEF).encode())], False)], MARK, [(1, b"\x06A-1")], "null")[0], "reader": None},
                         {"op": "sread", "schema": copy.deepcopy(ITEM_REF), "data": b"\x06A-1", "reader": None}]}
        yield {"calls": [{"op": "jread", "schema": copy.deepcopy(POOL[14][0]), "text": "{}\n{}"}, {"op": "jread", "schema": {"slot": 0}, "text": "{}"}][:1] + [{"op": "parse", "schema": copy.deepcopy(POOL[14][0]), "slot": 0}, {"op": "jread", "schema": {"slot": 0}, "text": "{}\n{}"}, {"op": "jread", "schema": {"slot": 0}, "text": "{}"}]}
        yield {"calls": [{"op": "parse", "schema": copy.deepcopy(POOL[0][0]), "slot": 1}, {"op": "cwrite", "schema": {"slot": 1}, "records": [{"a": 1}], "codec": "null"}, {"op": "parse", "schema": {"slot": 1}, "slot": 2}][:2] + [{"op": "swrite", "schema": {"slot": 1}, "datum": {"a": 2}}, {"op": "canon", "schema": {"slot": 1}}]}

        # bytes written under one definition of a name, read under it and then under every other definition of that name
        # (and the other way round), schemaless and from a container
        for i, (js, _, _) in enumerate(POOL):
            enc = _pool_encoding(i)
            if enc is None:
                continue
            for j in _same_name(js):
                other = POOL[j][0]
                cont = RC.write([([("avro.schema", json.dumps(other).encode())], False)], MARK, [(1, enc)], "null")[0]
                yield {"calls": [{"op": "sread", "schema": copy.deepcopy(js), "data": enc, "reader": None}, {"op": "sread", "schema": copy.deepcopy(other), "data": enc, "reader": None},
                                 {"op": "cread", "data": cont, "reader": None}, {"op": "sread", "schema": copy.deepcopy(js), "data": enc, "reader": None}]}

    # ------------------------------------------------------------------ oracle
    def run_case(self, case):
        server = self._server()
        labels = set()
        slots = {}
        calls = case["calls"]
        names_seen = {}
        failed = False
        last_parse = {}
        nsd_hist = {}
        for i, call in enumerate(calls):
            labels.add("op:" + call["op"])
            if call.get("opts"):
                labels.add("with-options")
            if call.get("reader") is not None:
                labels.add("with-reader-schema")
            if "nsd" in call:
                labels.add("shared-named-schemas-dict")
            if call["op"] == "jread" and call["text"].strip() not in JREAD_FIXED:
                labels.add("json-text-from-schema")
            s = call.get("schema")
            uses_slot = isinstance(s, dict) and set(s) == {"slot"}
            if uses_slot:
                if s["slot"] not in slots:
                    continue  # history refers to a slot never filled (parse failed earlier): skip the call
                labels.add("reused-parsed-object")
            elif s is not None:
                try:
                    node, table = M.resolve(copy.deepcopy(s))
                    for full, d in table.items():
                        sig = json.dumps(M.strip(d), sort_keys=True)
                        if full in names_seen and names_seen[full] != sig:
                            labels.add("name-clash")
                        names_seen.setdefault(full, sig)
                except Exception:
                    pass
            # fresh interpreter: re-create the parsed object the call uses, then the call itself
            chain = []
            if uses_slot:
                lp = last_parse[s["slot"]]
                chain.extend(lp.get("_pre", []))
                chain.append({k: v for k, v in lp.items() if k not in ("_pre", "_nsd_pos")})
                if "_nsd_pos" in lp:
                    # the parsed object keeps the caller's named-schema dictionary by reference, and later parse calls
                    # that were handed the same dictionary have legitimately filled it further: they are part of the
                    # state of the argument, so the fresh interpreter repeats them (into a slot nobody reads)
                    for later in nsd_hist.get(lp["nsd"], [])[lp["_nsd_pos"] + 1:]:
                        chain.append(dict(copy.deepcopy(later), slot=("unused", len(chain))))
            elif "nsd" in call:
                # the caller's dictionary is an argument: its contents come from the earlier parse calls that received it
                chain.extend(copy.deepcopy(nsd_hist.get(call["nsd"], [])))
            chain.append(call)
            fresh = server.call(copy.deepcopy(chain))
            if isinstance(fresh, tuple) and fresh and fresh[0] == "harness":
                raise HarnessError(f"fork server: {fresh[1]}")
            main, mutated = run_call(call, slots)
            if call["op"] == "parse" and main[0] == "ok":
                lp = copy.deepcopy({k: v for k, v in call.items()})
                if "nsd" in call:
                    lp["_pre"] = copy.deepcopy(nsd_hist.get(call["nsd"], []))
                    lp["_nsd_pos"] = len(nsd_hist.get(call["nsd"], []))
                last_parse[call["slot"]] = lp
            elif call["op"] == "parse":
                slots.pop(call["slot"], None)
                last_parse.pop(call["slot"], None)
            if call["op"] == "parse" and "nsd" in call:
                nsd_hist.setdefault(call["nsd"], []).append(copy.deepcopy(call))
            if main[0] == "ok" and failed:
                labels.add("failure-then-success")
            if main[0] == "exc":
                failed = True
            if mutated:
                raise Violation("argument-modified:" + call["op"] + ":" + mutated, f"call #{i} {call['op']} modified its {mutated} argument; call={tagged.enc(call)!r:.400}")
            if main != fresh:
                raise Violation(
                    "history-dependent-result:" + call["op"],
                    f"call #{i} ({call['op']}) gives {self._short(main)} after the history but {self._short(fresh)} in a fresh interpreter; call={tagged.enc(call)!r:.300}; earlier calls={[c['op'] for c in calls[:i]]}",
                )
        return labels

    def _short(self, d):
        return repr(d)[:260]

    def nontrivial(self, labels):
        return bool(labels & {"name-clash", "failure-then-success", "reused-parsed-object"})


CHECK = C17()

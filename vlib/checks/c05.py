"""C05 - container layout interoperates both ways with an independent implementation."""
import glob
import hashlib
import io
import json
import os
import tempfile

import fastavro
from hypothesis import strategies as st

from .. import gen, concase, env
from ..ref import model as M
from ..ref import binary as B
from ..ref import container as RC
from ..ref import canon
from ..ref import logical as RL
from ..runner import Check, Violation, guard, outcome, HarnessError

short = concase.short


class C05(Check):
    pid = "C05"
    level = "exploration"
    rule = (
        "Four generated case kinds. fa2ref: a file written by fastavro.writer (generator of C04) is parsed by the strict "
        "independent parser (magic, metadata map, sync, blocks of count/length/payload/sync to exactly EOF, own codec "
        "framing); decoded records must equal the normalised input, avro.schema must be JSON with the supplied canonical "
        "form, avro.codec the codec name. ref2fa: the independent writer emits a layout-valid file with a drawn block "
        "partition (empty blocks included), header map chunking (positive/negative form), codec key present/absent and "
        "compressor settings; reader must return the records, block_reader blocks must tile [header end, EOF) with matching "
        "counts and iterate to their own records. isavro: byte strings (empty, short, magic+anything, near misses) as buffer "
        "and as path; oracle data[:4]==magic. fixture: every tests/avro-files/*.avro with a usable codec, independent parser "
        "vs fastavro.reader/block_reader. Non-trivial: fa2ref >=2 blocks or compressed; ref2fa a layout fastavro never writes."
    )
    assumptions = [
        "up to 3 stray bytes after a raw deflate stream are tolerated and counted (zlib trailer remnant left by fastavro and Apache Python)",
        "codecs limited to null/deflate/bzip2/xz (others not importable here)",
    ]
    required_labels = ["kind:fa2ref", "kind:ref2fa", "kind:isavro", "kind:fixture", "fa2ref:appended", "fa2ref:append-after-looking-at-the-file", "ref2fa:empty-block", "ref2fa:chunked-header", "ref2fa:no-codec-key", "fa2ref:blocks>=2", "isavro:true", "isavro:false", "isavro:short"]
    quick = (1500, 1)
    thorough = (3000, 16)

    def __init__(self):
        self.feat = gen.Features(big=False)

    def selftest(self):
        B.selftest()
        canon.selftest()

    def extra_coverage(self):
        return {"codecs_usable": concase.usable_codecs(fastavro)}

    def strategy(self, tier):
        codecs = [c for c in concase.usable_codecs(fastavro) if c in concase.REF_CODECS]
        feat = self.feat
        fa2ref = concase.container_cases(feat, codecs, with_stream=False).map(lambda c: dict(c, kind="fa2ref"))
        # the same file produced in two sessions: created with one set of arguments, appended to with another
        fa2ref_append = st.tuples(concase.container_cases(feat, codecs, with_stream=False), st.integers(0, 6), st.sampled_from(["none", "same"])).map(
            lambda t: dict(t[0], kind="fa2ref", append_at=t[1], append_schema=t[2]))

        @st.composite
        def ref2fa(draw):
            d = gen.D(draw)
            ir, table, js = gen.build_schema(d, feat)
            gen.check_truth(ir, table, js)
            records = concase.gen_records(d, feat, ir, table)
            encs = [B.encode(ir, table, r, layout=gen.layout_strategy(d) if d.p(0.2) else None) for r in records]
            # block partition incl. empty blocks
            part = []
            i = 0
            while i < len(records):
                if d.p(0.2):
                    part.append(0)
                    continue
                n = d.rng(1, len(records) - i)
                part.append(n)
                i += n
            while d.p(0.25) and len(part) < 12:
                part.insert(d.i(len(part) + 1), 0)
            codec = d.choice(codecs)
            with_key = True if codec != "null" else d.p(0.5)
            meta = [("avro.schema", json.dumps(js).encode())]
            if with_key:
                meta.append(("avro.codec", codec.encode()))
            for k, v in concase.gen_metadata(d).items():
                meta.append((k, v.encode()))
            binary_meta = d.p(0.2)
            if binary_meta:
                # header values are bytes in the specification: not necessarily text
                meta.append((d.choice(["bin", "user.blob", "x"]), d.choice([b"\xff\xfe", b"\x80", b"\xc3", b"\x00\xff\x00", bytes(range(256))])))
            order = d.i(3)
            if order == 1:
                meta.reverse()
            chunks = []
            j = 0
            while j < len(meta):
                n = d.rng(1, len(meta) - j)
                chunks.append((meta[j : j + n], d.p(0.4)))
                j += n
            opt = {}
            if codec == "deflate":
                opt["level"] = d.choice([0, 1, 6, 9])
                if d.p(0.3):
                    opt["sync_flush_at"] = [d.rng(0, 40)]
            elif codec in ("bzip2", "xz"):
                opt["level"] = d.choice([1, 6, 9])
            sync = d.choice([b"\x00" * 16, bytes(range(16)), b"\xff" * 16, b"0123456789abcdef"])
            blocks = []
            i = 0
            for n in part:
                blocks.append((n, b"".join(e for e, _ in encs[i : i + n])))
                i += n
            data, layout = RC.write(chunks, sync, blocks, codec, opt)
            return {
                "kind": "ref2fa",
                "schema": js,
                "file": data,
                "expected": [norm for _, norm in encs],
                "layout": [list(x) for x in layout],
                "codec": codec,
                "facts": {"empty": 0 in part, "chunks": len(chunks), "neg": any(n for _, n in chunks), "key": with_key, "binary_meta": binary_meta},
            }

        @st.composite
        def isavro(draw):
            d = gen.D(draw)
            w = d.i(8)
            if w == 0:
                data = b""
            elif w == 1:
                data = b"Obj\x01"[: d.rng(0, 3)]
            elif w == 2:
                data = b"Obj\x01" + draw(st.binary(max_size=20))
            elif w == 3:
                near = bytearray(b"Obj\x01")
                near[d.i(4)] ^= 1 << d.i(8)
                data = bytes(near) + draw(st.binary(max_size=4))
            elif w == 4:
                data = draw(st.binary(max_size=6)) + b"Obj\x01"
            elif w == 5:
                data = b"Obj" + bytes([d.rng(0, 255)])
            else:
                data = draw(st.binary(max_size=12))
            return {"kind": "isavro", "data": data, "as_path": d.p(0.3)}

        return st.one_of(fa2ref, fa2ref_append, ref2fa(), ref2fa(), isavro())

    def fixed_cases(self, tier):
        d = os.path.join(env.repo_path(), "tests", "avro-files")
        for p in sorted(glob.glob(os.path.join(d, "*.avro"))):
            yield {"kind": "fixture", "path": os.path.relpath(p, env.repo_path())}
        # one block holding the same 20000 incompressible bytes three times: back-references span more than half of the
        # 32 KiB deflate window (a decoder opened with a smaller window cannot follow them); written by the reference
        big = hashlib.shake_256(b"verif").digest(20000)
        enc = B.encode({"k": "bytes"}, {}, big)[0]
        for level in (6, 9):
            data, layout = RC.write([([("avro.schema", b'"bytes"'), ("avro.codec", b"deflate")], False)], b"S" * 16, [(3, enc * 3)], "deflate", {"level": level})
            yield {"kind": "ref2fa", "schema": "bytes", "file": data, "expected": [big] * 3, "layout": [list(x) for x in layout], "codec": "deflate",
                   "facts": {"empty": False, "chunks": 1, "neg": False, "key": True}}
        yield {"kind": "isavro", "data": b"", "as_path": True}
        yield {"kind": "isavro", "data": b"Obj", "as_path": False}
        yield {"kind": "isavro", "data": b"Obj\x01", "as_path": True}
        yield {"kind": "isavro", "data": b"Obj\x01", "as_path": False}

    # ------------------------------------------------------------------ kinds
    def run_case(self, case):
        kind = case["kind"]
        labels = {"kind:" + kind}
        getattr(self, "_" + kind)(case, labels)
        return labels

    def _fa2ref(self, case, labels):
        js = case["schema"]
        node, table = M.resolve(js)
        schema = guard("parse-valid-schema", fastavro.parse_schema, js) if case.get("parsed") else js
        kw = {"codec": case["codec"], "sync_interval": case["sync_interval"], "metadata": dict(case["metadata"])}
        if case.get("codec2") and case["codec2"] != case["codec"] and case["sync_interval2"] % 2 == 0:
            # the caller's metadata dict already served another file with another codec
            labels.add("fa2ref:metadata-dict-reused")
            guard("write-container", fastavro.writer, io.BytesIO(), schema, [], codec=case["codec2"], metadata=kw["metadata"])
        if case.get("marker") is not None:
            kw["sync_marker"] = case["marker"]
        if case.get("level") is not None:
            kw["codec_compression_level"] = case["level"]
        fo = io.BytesIO()
        if "append_at" in case and case["records"]:
            cut = min(case["append_at"], len(case["records"]))
            labels.add("fa2ref:appended")
            guard("write-container", fastavro.writer, fo, schema, case["records"][:cut], **kw)
            if case["sync_interval2"] % 3 == 0:
                # the caller inspected the file before appending: the stream stands behind the header, not at the end
                fo.seek(0)
                guard("read-own-file", lambda: fastavro.reader(fo).writer_schema)
                labels.add("fa2ref:append-after-looking-at-the-file")
            else:
                fo.seek(0, 2)
            kw2 = {"codec": case["codec2"], "sync_interval": case["sync_interval2"], "metadata": {"late": "ignored"}}
            guard("append-through-writer-function", fastavro.writer, fo, None if case["append_schema"] == "none" else schema, case["records"][cut:], **kw2)
        else:
            guard("write-container", fastavro.writer, fo, schema, case["records"], **kw)
        data = fo.getvalue()
        try:
            pf = RC.parse(data)
        except RC.ContainerError as e:
            raise Violation("layout:" + e.kind, f"independent parser rejects the written file: {e}; codec={case['codec']} interval={case['sync_interval']} schema={js!r:.300}")
        if case.get("marker") is not None and pf["sync"] != case["marker"]:
            raise Violation("layout:marker", f"supplied sync marker {case['marker'].hex()} not used (file has {pf['sync'].hex()})")
        try:
            hs = json.loads(pf["meta"]["avro.schema"].decode("utf-8"))
            hnode, _ = M.resolve(hs)
        except Exception as e:
            raise Violation("layout:header-schema", f"avro.schema is not a usable JSON schema: {e!r}; {pf['meta'].get('avro.schema')!r:.300}")
        if canon.canonical(hnode) != canon.canonical(node):
            raise Violation("layout:header-schema-differs", f"header schema canonical form {canon.canonical(hnode)!r:.300} differs from supplied {canon.canonical(node)!r:.300}")
        if pf["meta"].get("avro.codec") != case["codec"].encode():
            raise Violation("layout:codec-name", f"avro.codec is {pf['meta'].get('avro.codec')!r}, expected {case['codec']!r}")
        for k, v in case["metadata"].items():
            if pf["meta"].get(k) != v.encode():
                raise Violation("layout:metadata", f"metadata {k!r} stored as {pf['meta'].get(k)!r}")
        try:
            exp = concase.expected_records(node, table, case["records"], pf)
        except (B.RefError, B.NotConforming) as e:
            raise Violation("layout:records", f"independent decoding of the blocks does not give the written records: {e}; codec={case['codec']} schema={js!r:.300}")
        # the block reader's view of fastavro's own file must tile it exactly as the independent parser sees it
        blocks = guard("block-read-own-file", lambda: list(fastavro.block_reader(io.BytesIO(data))))
        self._check_tiling(blocks, [(b["offset"], b["size"], b["count"]) for b in pf["blocks"]], len(data), exp, f"own file, codec={case['codec']} interval={case['sync_interval']}")
        if len(pf["blocks"]) >= 2:
            labels.add("fa2ref:blocks>=2")
        if case["codec"] != "null":
            labels.add("fa2ref:compressed")
        if pf["deflate_tail"]:
            labels.add("fa2ref:deflate-tail-tolerated")

    def _ref2fa(self, case, labels):
        data = bytes(case["file"])
        exp = case["expected"]
        f = case["facts"]
        if f["empty"]:
            labels.add("ref2fa:empty-block")
        if f["chunks"] >= 2 or f["neg"]:
            labels.add("ref2fa:chunked-header")
        if not f["key"]:
            labels.add("ref2fa:no-codec-key")
        if f.get("binary_meta"):
            labels.add("ref2fa:binary-metadata-value")
        labels.add("ref2fa:codec:" + case["codec"])
        got = guard("read-foreign-file", lambda: list(fastavro.reader(io.BytesIO(data))))
        if len(got) != len(exp) or not all(B.same(g, e) for g, e in zip(got, exp)):
            raise Violation("foreign-file-records", f"reader returned {len(got)} records {short(got)}, file holds {len(exp)}: {short(exp)}; layout={case['layout']} facts={f}")
        blocks = guard("block-read-foreign-file", lambda: list(fastavro.block_reader(io.BytesIO(data))))
        self._check_tiling(blocks, case["layout"], len(data), exp, f"layout={case['layout']} facts={f}")

    def _check_tiling(self, blocks, layout, total_len, exp, ctx):
        if len(blocks) != len(layout):
            raise Violation("block-reader-count", f"block_reader gave {len(blocks)} blocks, file has {len(layout)}; {ctx}")
        i = 0
        for b, (off, size, count) in zip(blocks, layout):
            if (b.offset, b.size, b.num_records) != (off, size, count):
                raise Violation("block-tiling", f"block reported (offset,size,n)=({b.offset},{b.size},{b.num_records}), file has ({off},{size},{count}); {ctx}")
            recs = guard("iterate-block", lambda: list(b))
            want = exp[i : i + count]
            if len(recs) != len(want) or not all(B.same(g, e) for g, e in zip(recs, want)):
                raise Violation("block-records", f"block at {off} iterates to {short(recs)}, holds {short(want)}; {ctx}")
            i += count
        if layout:
            end = layout[-1][0] + layout[-1][1]
            if end != total_len:
                raise HarnessError("layout does not reach EOF")
        if sum(b.num_records for b in blocks) != len(exp):
            raise Violation("block-count-sum", f"record counts sum to {sum(b.num_records for b in blocks)}, file holds {len(exp)}; {ctx}")

    def _isavro(self, case, labels):
        data = bytes(case["data"])
        want = data[:4] == b"Obj\x01"
        labels.add("isavro:true" if want else "isavro:false")
        if len(data) < 4:
            labels.add("isavro:short")
        if case.get("as_path"):
            with tempfile.TemporaryDirectory(prefix="vc05") as td:
                p = os.path.join(td, "f")
                with open(p, "wb") as fo:
                    fo.write(data)
                got = guard("is_avro", fastavro.is_avro, p)
        else:
            got = guard("is_avro", fastavro.is_avro, io.BytesIO(data))
        if got is not want:
            raise Violation("is_avro-wrong", f"is_avro({data!r}) ({'path' if case.get('as_path') else 'buffer'}) returned {got!r}, expected {want!r}")

    def _fixture(self, case, labels):
        path = os.path.join(env.repo_path(), case["path"])
        data = open(path, "rb").read()
        try:
            pf = RC.parse(data)
        except RC.ContainerError as e:
            if e.kind == "codec" and "unsupported" in str(e):
                labels.add("fixture:codec-unavailable")
                return
            raise HarnessError(f"independent parser cannot parse fixture {case['path']}: {e}")
        if pf["codec"] not in concase.usable_codecs(fastavro):
            labels.add("fixture:codec-unavailable")
            return
        js = json.loads(pf["meta"]["avro.schema"])
        node, table = M.resolve(js)
        exp = []
        for b in pf["blocks"]:
            pos = 0
            for _ in range(b["count"]):
                v, pos = B.decode(node, table, b["data"], pos, conv=RL.from_raw)
                exp.append(v)
            if pos != len(b["data"]):
                raise HarnessError(f"fixture block not fully consumed in {case['path']}")
        got = guard("read-fixture", lambda: list(fastavro.reader(io.BytesIO(data))))
        if len(got) != len(exp) or not all(B.same(g, e) for g, e in zip(got, exp)):
            i = next((j for j, (g, e) in enumerate(zip(got, exp)) if not B.same(g, e)), min(len(got), len(exp)))
            raise Violation("fixture-records", f"{case['path']}: record #{i} fastavro {short(got[i]) if i < len(got) else None} independent {short(exp[i]) if i < len(exp) else None}")
        blocks = guard("block-read-fixture", lambda: list(fastavro.block_reader(io.BytesIO(data))))
        layout = [(b["offset"], b["size"], b["count"]) for b in pf["blocks"]]
        self._check_tiling(blocks, layout, len(data), exp, case["path"])
        labels.add("fixture:blocks>=2" if len(layout) >= 2 else "fixture:single-block")

    def nontrivial(self, labels):
        return bool(
            labels & {"fa2ref:blocks>=2", "fa2ref:compressed", "ref2fa:empty-block", "ref2fa:chunked-header", "ref2fa:no-codec-key", "kind:fixture", "isavro:short", "isavro:true"}
        )


CHECK = C05()

"""C08 - reading with a reader schema yields what the spec's resolution rules prescribe."""
import copy
import io

import fastavro
from fastavro.read import SchemaResolutionError
from hypothesis import strategies as st

from .. import gen, bincase
from ..ref import model as M
from ..ref import binary as B
from ..ref import resolve as R
from ..runner import Check, Violation, guard, outcome, HarnessError

MARK = b"\x0e" * 16


def _two_blocks(kind, n):
    if n <= 0:
        return []
    if n == 1:
        return [(1, True)]
    return [((n + 1) // 2, True), (n // 2, False)]


class C08(Check):
    pid = "C08"
    level = "exploration"
    rule = (
        "Generated triples (writer schema W, conforming datum, reader schema R): R is derived from W's type graph by 0-3 "
        "drawn evolution steps at drawn positions and depths (reorder / drop / add field with or without default, rename "
        "field with alias, numeric and string<->bytes promotion, enum symbols added / removed with or without reader "
        "default, named type renamed with or without alias, namespace changed, type wrapped into a reader union in any "
        "order, writer union replaced by one branch, reader union permuted or shrunk, non-promotable type change, fixed "
        "size change); definitions are re-placed at their first use, so inline<->by-name moves arise from reordering. R = deep "
        "copy of W is a separate class. Data are written with schemaless_writer / writer and read back with "
        "schemaless_reader(fo, W, R) and reader(fo, reader_schema=R). Oracle: vlib/ref/resolve.py, the specification's "
        "rules (reader unions: first branch of the same type, else first reachable by promotion); fastavro must return an "
        "equal value (records compared as mappings, leaves type-exact) or raise SchemaResolutionError exactly when the rules "
        "give no result for this datum. Non-trivial = at least one evolution step applied. Distinct by digest."
    )
    assumptions = [
        "reader-only defaults restricted to types whose JSON default is the Python value",
        "bytes promoted to string are valid UTF-8",
        "reader unions never hold two named types matching the same writer type (short names unique per schema)",
    ]
    required_labels = ["steps:0-copy", "steps>=1", "expect:value", "expect:error", "via:container", "via:schemaless",
                       "step:promote", "step:wrap-union", "step:drop-field", "step:reorder", "step:rename-type-alias", "step:enum-remove-default", "moved-definition", "foreign-layout", "reader-only-field:new-named-type-default",
                       "step:add-field-default", "step:add-field-nodefault", "step:change-type", "step:enum-remove-nodefault", "step:fixed-size", "step:rename-type-noalias", "step:union-drop-branch", "step:rename-field-alias", "step:change-namespace", "step:enum-add", "step:permute-union", "step:unwrap-union", "step:union-insert-branch", "step:split-named"]
    quick = (5000, 1)
    thorough = (8000, 16)

    def __init__(self):
        self.feat = gen.Features(big=False, exotic_seqs=False, extra_keys=0.0, name_clash=0.0, unique_shorts=True, utf8_bytes=True, omit=0.2, max_depth=4, dict_prims=0.35)

    def selftest(self):
        B.selftest()

    def strategy(self, tier):
        feat = self.feat

        @st.composite
        def cases(draw):
            d = gen.D(draw)
            ir, table, js = gen.build_schema(d, feat)
            gen.check_truth(ir, table, js)
            dg = gen.DataGen(d, feat, table)
            datum = dg.gen(ir, 5)
            root, gtable = gen.to_graph(ir)
            nsteps = d.weighted([(1, 6), (2, 5), (3, 3), (0, 2)])
            rroot, rtable, steps = gen.evolve(d, root, gtable, nsteps)
            rir, rt = gen.linearize(rroot, rtable)
            rjs = gen.Renderer(d, feat, rt).render(rir, "")
            gen.check_truth(rir, rt, rjs)
            return {"writer": js, "reader": rjs, "datum": datum, "steps": steps, "via": d.choice(["schemaless", "schemaless", "container"]), "parsed": d.p(0.3)}

        return cases()

    def fixed_cases(self, tier):
        base = {"steps": ["fixed"], "via": "schemaless", "parsed": False}
        yield dict(base, writer="int", reader=["float", "int"], datum=7)
        yield dict(base, writer=["null", "int"], reader=["int", "double"], datum=5)
        yield dict(base, writer={"type": "record", "name": "R", "fields": [{"name": "a", "type": {"type": "fixed", "name": "F", "size": 2}}, {"name": "b", "type": "F"}]},
                   reader={"type": "record", "name": "R", "fields": [{"name": "b", "type": {"type": "fixed", "name": "F", "size": 2}}, {"name": "a", "type": "F"}]},
                   datum={"a": b"12", "b": b"34"})
        yield dict(base, writer={"type": "enum", "name": "E", "symbols": ["A", "B"]}, reader={"type": "enum", "name": "E", "symbols": ["A"], "default": "A"}, datum="B")
        yield dict(base, writer={"type": "enum", "name": "E", "symbols": ["A", "B"]}, reader={"type": "enum", "name": "E", "symbols": ["A"]}, datum="B")
        yield dict(base, writer={"type": "array", "items": "int"}, reader={"type": "array", "items": "string"}, datum=[])
        # one writer enum used twice, resolved against two different reader enums (the second one by alias)
        suit = {"type": "enum", "name": "Suit", "symbols": ["SPADES", "HEARTS", "DIAMONDS", "CLUBS"]}
        major = {"type": "enum", "name": "MajorSuit", "aliases": ["Suit"], "symbols": ["SPADES", "HEARTS"], "default": "SPADES"}
        major_nd = {"type": "enum", "name": "MajorSuit", "aliases": ["Suit"], "symbols": ["SPADES", "HEARTS"]}
        w2 = {"type": "record", "name": "Hand", "fields": [{"name": "a", "type": suit}, {"name": "b", "type": "Suit"}, {"name": "c", "type": {"type": "array", "items": "Suit"}}]}
        for wide_first in (True, False):
            for narrow in (major, major_nd):
                fa = {"name": "a", "type": suit if wide_first else narrow}
                fb = {"name": "b", "type": narrow if wide_first else suit}
                fc = {"name": "c", "type": {"type": "array", "items": "MajorSuit" if wide_first else "Suit"}}
                r2 = {"type": "record", "name": "Hand", "fields": [fa, fb, fc]}
                for dv in ({"a": "CLUBS", "b": "CLUBS", "c": ["CLUBS", "HEARTS"]}, {"a": "HEARTS", "b": "HEARTS", "c": []}, {"a": "SPADES", "b": "DIAMONDS", "c": ["SPADES"]}):
                    yield dict(base, writer=w2, reader=r2, datum=dv, steps=["fixed", "split-named"])
                    yield dict(base, writer=w2, reader=r2, datum=dv, steps=["fixed", "split-named"], via="container", parsed=True)
        # a logical type the library does not know is the plain underlying type: promotions apply
        ul = lambda t, n: {"type": t, "logicalType": n}  # noqa: E731
        for via in ("schemaless", "container"):
            yield dict(base, writer=ul("string", "label-text"), reader="bytes", datum="caf\u00e9", via=via)
            yield dict(base, writer=ul("bytes", "blob"), reader="string", datum=b"token", via=via)
            yield dict(base, writer=ul("int", "my-count"), reader="double", datum=3, via=via)
            yield dict(base, writer={"type": "record", "name": "UL", "fields": [{"name": "a", "type": {"type": "array", "items": ul("long", "ticks")}}, {"name": "b", "type": ["null", ul("int", "x")]}]},
                       reader={"type": "record", "name": "UL", "fields": [{"name": "a", "type": {"type": "array", "items": "double"}}, {"name": "b", "type": ["null", "float", "long"]}]},
                       datum={"a": [1, 2**40], "b": 7}, via=via)
        # reader-only fields whose type is given BY NAME and whose default still has to be converted / completed
        pt = {"type": "record", "name": "geo.Pt", "fields": [{"name": "x", "type": "int"}, {"name": "y", "type": "int", "default": 0}, {"name": "w", "type": "double", "default": 1}]}
        tg = {"type": "fixed", "name": "geo.Tag", "size": 2}
        wr = {"type": "record", "name": "geo.Shape", "fields": [{"name": "id", "type": "long"}, {"name": "at", "type": pt}, {"name": "t", "type": tg}]}
        rd = {"type": "record", "name": "geo.Shape", "fields": [{"name": "id", "type": "long"}, {"name": "at", "type": pt}, {"name": "t", "type": tg},
                                                                {"name": "origin", "type": "geo.Pt", "default": {"x": 3}}, {"name": "tag2", "type": "Tag", "default": "ab"},
                                                                {"name": "more", "type": {"type": "array", "items": "geo.Pt"}, "default": [{"x": 1, "w": 2}]},
                                                                {"name": "opt", "type": ["geo.Tag", "null"], "default": "\u00ff\u0000"}]}
        for via in ("schemaless", "container"):
            for parsed in (False, True):
                yield dict(base, writer=wr, reader=rd, datum={"id": 7, "at": {"x": 1, "y": 2, "w": 0.5}, "t": b"zz"}, via=via, parsed=parsed)
        # regression cases of the repaired resolution defects (one per fix commit)
        recA = {"type": "record", "name": "ns.A", "fields": [{"name": "x", "type": "int"}]}
        enumA = {"type": "enum", "name": "A", "symbols": ["P", "Q"]}
        yield dict(base, writer=recA, reader=[enumA, recA], datum={"x": 1})  # kinds must agree (ac80dc0)
        yield dict(base, writer=recA, reader=enumA, datum={"x": 1})  # ... also outside a union: no result
        yield dict(base, writer=enumA, reader={"type": "fixed", "name": "A", "size": 1}, datum="P")
        yield dict(base, writer={"type": "array", "items": recA}, reader={"type": "array", "items": enumA}, datum=[{"x": 1}], via="container")
        yield dict(base, writer=["null", recA], reader=["null", enumA, recA], datum={"x": 2})
        e1 = {"type": "enum", "name": "E1", "symbols": ["A", "B"]}
        holder_w = {"type": "record", "name": "H", "fields": [{"name": "a", "type": e1}, {"name": "v", "type": "E1"}]}
        holder_r = {"type": "record", "name": "H", "fields": [{"name": "v", "type": [e1, "float"]}, {"name": "a", "type": "E1"}]}
        yield dict(base, writer=holder_w, reader=holder_r, datum={"a": "A", "v": "B"})  # by-name writer vs inline in reader union (317512f)
        holder_r2 = {"type": "record", "name": "H", "fields": [{"name": "a", "type": e1}, {"name": "v", "type": ["E1", "float"]}]}
        holder_w2 = {"type": "record", "name": "H", "fields": [{"name": "v", "type": e1}, {"name": "a", "type": "E1"}]}
        yield dict(base, writer=holder_w2, reader=holder_r2, datum={"a": "A", "v": "B"})  # inline writer vs by-name branch of a reader union
        two = [{"type": "record", "name": "ns.A", "fields": [{"name": "a", "type": "string"}]}, {"type": "record", "name": "A", "fields": [{"name": "a", "type": ["int"]}]}]
        yield dict(base, writer={"type": "array", "items": two}, reader={"type": "array", "items": [dict(two[0]), dict(two[1], doc="copy")]}, datum=[{"a": 0}, {"a": "s"}])  # same full name first (d9ec719)
        yield dict(base, writer="string", reader=["bytes", "string"], datum="txt")  # exact type before promotion (8a9a1a4)
        fx = {"type": "fixed", "name": "F", "size": 2}
        yield dict(base, writer=fx, reader={"type": "fixed", "name": "F", "size": 3}, datum=b"ab")  # size mismatch is an error

    def run_case(self, case):
        wjs, rjs = case["writer"], case["reader"]
        wnode, wtable = M.resolve(wjs)
        rnode, rtable = M.resolve(rjs)
        datum = case["datum"]
        labels = {"via:" + case["via"]}
        steps = case.get("steps") or []
        labels.add("steps>=1" if steps else "steps:0-copy")
        for s in steps:
            labels.add("step:" + s)
        if "Added" in repr(rjs):
            labels.add("reader-only-field:new-named-type-default")
        if M.named_defs(wnode) != M.named_defs(rnode) and set(M.named_defs(wnode)) == set(M.named_defs(rnode)):
            labels.add("moved-definition")
        elif self._def_positions(wnode) != self._def_positions(rnode):
            labels.add("moved-definition")
        W = guard("parse-valid-schema", fastavro.parse_schema, wjs) if case.get("parsed") else wjs
        Rs = guard("parse-valid-schema", fastavro.parse_schema, rjs) if case.get("parsed") else rjs
        fo = io.BytesIO()
        guard("write-conforming", fastavro.schemaless_writer, fo, W, datum)
        blob = fo.getvalue()
        res = R.Resolver(wtable, rtable)
        try:
            expect, pos = res.resolve(wnode, rnode, blob, 0)
            kind = "value"
        except R.NoResult as e:
            expect, kind = str(e), "error"
        except B.RefError as e:
            labels.add("domain:" + e.kind)
            return labels
        except R.Ambiguous:
            labels.add("domain:alias-namespace-ambiguous")
            return labels
        except R.Unspecified:
            labels.add("domain:schema-level-mismatch-without-affected-item")
            return labels
        labels.add("expect:" + kind)
        if case["via"] == "schemaless":
            o = outcome(fastavro.schemaless_reader, io.BytesIO(blob), W, Rs)
        else:
            cfo = io.BytesIO()
            guard("write-container", fastavro.writer, cfo, W, [datum, datum], sync_marker=MARK)
            cfo.seek(0)
            o = outcome(lambda: list(fastavro.reader(cfo, reader_schema=Rs)))
            if o[0] == "ok":
                if len(o[1]) != 2:
                    raise Violation("resolution-record-count", f"{len(o[1])} records for 2 written; W={wjs!r:.300} R={rjs!r:.300}")
                if not B.same(o[1][0], o[1][1]):
                    raise Violation("resolution-stream-desync", f"the same datum written twice resolves to {o[1][0]!r:.150} then {o[1][1]!r:.150}; W={wjs!r:.300} R={rjs!r:.300}")
                o = ("ok", o[1][0])
        ctx = f"datum={datum!r:.150} W={wjs!r:.400} R={rjs!r:.400} steps={steps}"
        if kind == "value":
            if o[0] != "ok":
                raise Violation("resolution-raises:" + type(o[1]).__name__, f"rules give {expect!r:.150} but reading raised {type(o[1]).__name__}: {str(o[1])[:200]}; {ctx}")
            if not B.same(o[1], expect):
                raise Violation("resolution-mismatch", f"read {o[1]!r:.200}, rules give {expect!r:.200}; {ctx}")
            if not steps:
                plain = guard("read-own-output", fastavro.schemaless_reader, io.BytesIO(blob), W)
                if not B.same(plain, o[1]):
                    raise Violation("equal-reader-schema-differs", f"with R == W read {o[1]!r:.150}, without reader schema {plain!r:.150}; {ctx}")
            # the same value in a layout fastavro's writer never emits (every array/map in two blocks, the first one in the
            # negative-count + byte-size form): resolution, skipping included, must give the same result
            try:
                trace, _, _ = bincase.trace_of(wnode, wtable, blob)
                blob2, _ = B.encode(wnode, wtable, datum, B.Picker(indices=trace), layout=_two_blocks)
            except (B.RefError, B.NotConforming):
                blob2 = blob
            if blob2 != blob:
                labels.add("foreign-layout")
                o2 = outcome(fastavro.schemaless_reader, io.BytesIO(blob2), W, Rs)
                if o2[0] != "ok":
                    raise Violation("resolution-raises:foreign-layout:" + type(o2[1]).__name__, f"rules give {expect!r:.150} but reading the multi-block encoding raised {type(o2[1]).__name__}: {str(o2[1])[:200]}; {ctx}")
                if not B.same(o2[1], expect):
                    raise Violation("resolution-mismatch:foreign-layout", f"multi-block encoding read as {o2[1]!r:.200}, rules give {expect!r:.200}; {ctx}")
        else:
            if o[0] == "ok":
                raise Violation("resolution-no-error", f"rules give no result ({expect}) but reading returned {o[1]!r:.150}; {ctx}")
            if not isinstance(o[1], SchemaResolutionError):
                raise Violation("resolution-wrong-error:" + type(o[1]).__name__, f"rules give no result ({expect}); reading raised {type(o[1]).__name__}: {str(o[1])[:200]} instead of SchemaResolutionError; {ctx}")
        return labels

    def _def_positions(self, node, path=(), out=None):
        if out is None:
            out = {}
        k = node["k"]
        if k in M.NAMED:
            out[M.split_full(node["name"])[1]] = len(path)
            if k == "record":
                for f in node["fields"]:
                    self._def_positions(f["type"], path + (f["name"],), out)
        elif k == "array":
            self._def_positions(node["items"], path + ("[]",), out)
        elif k == "map":
            self._def_positions(node["values"], path + ("{}",), out)
        elif k == "union":
            for i, b in enumerate(node["branches"]):
                self._def_positions(b, path + (i,), out)
        return out

    def nontrivial(self, labels):
        return "steps>=1" in labels


CHECK = C08()

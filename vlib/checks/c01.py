"""C01 - binary round trip, back-to-back values."""
import io

import fastavro

from .. import gen, bincase
from ..ref import model as M
from ..ref import binary as B
from ..runner import Check, Violation, guard


def _short(v, n=200):
    s = repr(v)
    return s if len(s) <= n else s[:n] + "..."


class C01(Check):
    pid = "C01"
    level = "exploration"
    rule = (
        "Hypothesis-generated (schema IR rendered with drawn name spellings, 1-3 conforming data, raw|parsed form); "
        "data written back to back with schemaless_writer and read one by one; oracle = documented normalisation "
        "computed by the independent reference walk for the union branches found in the bytes, plus stream position "
        "after every read. Non-trivial = schema has a union/named reference/non-empty collection or a value needing a "
        ">=2-byte varint; distinct by digest of (schema, data, form). Fixed sub-enumeration: all +-2^k, +-2^k+-1 ints "
        "at top level, nested, and concatenated."
    )
    assumptions = [
        "pure-Python modules under test (compiled extensions blocked)",
        "data nesting depth <= 30 (recursive-descent codec; Python recursion limit is an input-size precondition)",
        "float leaves lie within IEEE single range; ints under float/double within +-2^63",
    ]
    required_labels = ["s:union", "s:ref", "s:recursive", "d:varint10", "d:coll>=64", "d:nan", "form:parsed", "form:raw", "multi-value", "omitted-default", "d:tuple", "d:-type-hint", "d:nonlist-seq", "d:multibyte"]
    quick = (5000, 1)
    thorough = (12000, 16)

    def __init__(self):
        self.feat = gen.Features(hints=0.1, dict_null=True, int_float_defaults=True, bytes_defaults=True, ambiguous_union_defaults=True)

    def selftest(self):
        B.selftest()

    def strategy(self, tier):
        return bincase.binary_cases(self.feat)

    def fixed_cases(self, tier):
        # hints are full names: a namespaced branch that shares its unqualified name with a later null-namespace branch
        # must not capture the hint meant for the latter (records, enums, fixed; raw and parsed)
        pts = [{"type": "record", "name": "v1.Point", "fields": [{"name": "x", "type": "int"}, {"name": "y", "type": "int"}]},
               {"type": "record", "name": "Point", "fields": [{"name": "x", "type": "int"}, {"name": "y", "type": "int"}, {"name": "z", "type": "int", "default": 0}]}]
        ens = ["null", {"type": "enum", "name": "ns.Level", "symbols": ["LOW", "HIGH"]}, {"type": "enum", "name": "Level", "symbols": ["HIGH", "LOW"]},
               {"type": "fixed", "name": "deep.ns.Id", "size": 2}, {"type": "fixed", "name": "Id", "size": 2}]
        for parsed in (False, True):
            yield {"schema": pts, "data": [("Point", {"x": 1, "y": 2, "z": 3}), ("v1.Point", {"x": 4, "y": 5}), ("Point", {"x": 6, "y": 7})], "parsed": parsed}
            yield {"schema": {"type": "array", "items": ens}, "data": [[("Level", "HIGH"), ("ns.Level", "HIGH"), ("Id", b"ab"), ("deep.ns.Id", b"cd"), None, ("Level", "LOW")]], "parsed": parsed}
        # the default of a union field is a value of the FIRST branch even when it also conforms to a later one (here the
        # later branch is a map of the enclosing record, whose own omitted field has that default again: writing it under the
        # map branch never ends)
        rec_dflt = {"type": "record", "name": "com.ex.X", "fields": [{"name": "u", "type": [
            {"type": "record", "name": "ns.sub.X1", "fields": [{"name": "b", "type": {"type": "record", "name": "ns.sub.X2", "fields": [{"name": "value", "type": "string"}]}},
                                                               {"name": "kids", "type": {"type": "map", "values": "float"}, "default": {"k": -2.25}}]},
            {"type": "map", "values": "X"}], "default": {"b": {"value": "RED"}, "kids": {"k": 1.5}}}]}
        yield {"schema": rec_dflt, "data": [{}, {"u": {"b": {"value": "z"}, "kids": {"a": 1.0}}}, {"u": {"k": {}}}], "parsed": False}
        vals = set()
        for k in range(0, 64):
            for s in (1, -1):
                for dlt in (-1, 0, 1):
                    v = s * (2**k) + dlt
                    if B.LONG_MIN <= v <= B.LONG_MAX:
                        vals.add(v)
        vals |= {B.LONG_MIN, B.LONG_MAX, B.INT_MIN, B.INT_MAX}
        longs = sorted(vals)
        ints = [v for v in longs if B.INT_MIN <= v <= B.INT_MAX]
        nested = {"type": "array", "items": ["null", {"type": "map", "values": "long"}]}
        nested_i = {"type": "array", "items": ["string", {"type": "map", "values": "int"}]}
        # deep (but within the stated bound of 30) recursive data: linked list and a tree through arrays/maps
        ll = {"type": "record", "name": "ns.LL", "fields": [{"name": "v", "type": "long"}, {"name": "next", "type": ["null", "LL"], "default": None}]}
        tree = {"type": "record", "name": "Tree", "fields": [{"name": "kids", "type": {"type": "array", "items": "Tree"}}, {"name": "m", "type": {"type": "map", "values": ["null", "Tree"]}}]}
        node = None
        for i in range(28):
            node = {"v": i, "next": node} if node is not None else {"v": i}
        t = {"kids": [], "m": {}}
        for i in range(13):
            t = {"kids": [t, {"kids": [], "m": {"x": None}}], "m": {"k": t if i % 2 else None}}
        yield {"schema": ["null", {"type": "record", "name": "AllDef", "fields": [{"name": "a", "type": "int", "default": 0}]}, "string"], "data": [{}, None, "s"], "parsed": False}
        yield {"schema": {"type": "record", "name": "H", "fields": [{"name": "u", "type": ["int", {"type": "record", "name": "NoFields", "fields": []}]}]}, "data": [{"u": {}}, {"u": 1}], "parsed": True}
        for parsed in (False, True):
            yield {"schema": ll, "data": [node, {"v": -1}], "parsed": parsed}
            yield {"schema": tree, "data": [t], "parsed": parsed}
        for parsed in (False, True):
            yield {"schema": "long", "data": longs, "parsed": parsed}
            yield {"schema": "int", "data": ints, "parsed": parsed}
            yield {"schema": nested, "data": [[{"k": v, "": -v if v != B.LONG_MIN else 0}] for v in longs], "parsed": parsed}
            yield {"schema": nested_i, "data": [[{"k": v}, "s"] for v in ints], "parsed": parsed}

    def run_case(self, case):
        node, table = M.resolve(case["schema"])
        schema = bincase.fa_schema(fastavro, case)
        labels = gen.schema_labels(node, table)
        labels.add("form:parsed" if case.get("parsed") else "form:raw")
        data = case["data"]
        if len(data) > 1:
            labels.add("multi-value")
        out = io.BytesIO()
        ends = []
        for datum in data:
            gen.data_labels(datum, labels)
            guard("write-conforming", fastavro.schemaless_writer, out, schema, datum)
            ends.append(out.tell())
        blob = out.getvalue()
        rd = io.BytesIO(blob)
        start = 0
        for datum, end in zip(data, ends):
            seg = blob[start:end]
            got = guard("read-own-output", fastavro.schemaless_reader, rd, schema)
            if rd.tell() != end:
                raise Violation(
                    "reader-position",
                    f"after reading value #{len(ends)} reader at {rd.tell()}, writer produced up to {end}; schema={case['schema']!r}",
                )
            try:
                _, norm, _ = bincase.expected_for(node, table, datum, seg)
            except (B.RefError, B.NotConforming) as e:
                # the bytes are not a spec encoding for these branches (C02's concern);
                # C01 falls back to the documented first-conforming branch for its expectation
                labels.add("fallback-first-conforming")
                _, norm = B.encode(node, table, datum)
            lost = self._lost_keys(node, table, datum, seg)
            if lost:
                raise Violation(
                    "roundtrip-drops-data",
                    f"datum {_short(datum)} was written under a record branch that lacks its keys {lost[0]} although the union has a conforming record branch holding them ({lost[1]}); read back {_short(got)}; schema={case['schema']!r}",
                )
            if not B.same(got, norm):
                raise Violation(
                    "roundtrip-mismatch",
                    f"read back {_short(got)} expected {_short(norm)} for datum {_short(datum)} schema={case['schema']!r}",
                )
            if isinstance(datum, dict) and isinstance(norm, dict) and len(norm) > len([k for k in datum if k in norm]):
                labels.add("omitted-default")
            start = end
        return labels

    def _lost_keys(self, node, table, datum, seg):
        """At a union, a mapping written under a record branch that does not know some of its keys although another
        conforming record branch of the same union holds all of them: the round trip silently drops data."""
        try:
            trace, _, _ = bincase.trace_of(node, table, seg)
        except B.RefError:
            return None
        it = iter(trace)
        found = []

        def visit(n, d):
            k = n["k"]
            if k == "ref":
                return visit(table[n["name"]], d)
            if k == "array":
                for x in d:
                    visit(n["items"], x)
            elif k == "map":
                for v in d.values():
                    visit(n["values"], v)
            elif k == "record":
                for f in n["fields"]:
                    if f["name"] in d:
                        v = d[f["name"]]
                    elif "default" in f:
                        v = B.default_datum(f["type"], table, f["default"])
                    else:
                        v = None
                    visit(f["type"], v)
            elif k == "union":
                idx = next(it)
                b = M.deref(n["branches"][idx], table)
                v = d[1] if isinstance(d, tuple) else d
                if b["k"] == "record" and hasattr(v, "keys") and not isinstance(d, tuple) and "-type" not in v:
                    own = {f["name"] for f in b["fields"]}
                    extra = [key for key in v.keys() if key not in own and key != "zz_extra"]
                    if extra:
                        for ob in n["branches"]:
                            o = M.deref(ob, table)
                            if o["k"] == "record" and o is not b and all(key in {f["name"] for f in o["fields"]} for key in v.keys() if key != "zz_extra") and B.conforms(o, table, v):
                                found.append((extra, o["name"]))
                                break
                visit(n["branches"][idx], v)

        try:
            visit(node, datum)
        except (StopIteration, Exception):
            return None
        return found[0] if found else None

    def nontrivial(self, labels):
        return bool(
            labels & {"s:union", "s:ref", "d:coll>=64"}
            or any(l.startswith("d:varint") and l != "d:varint1" for l in labels)
            or ("s:array" in labels and "d:empty-coll" not in labels)
        )

    def predicates(self):
        def ambiguous_union_default(case, message):
            node, table = M.resolve(case["schema"])
            return gen.schema_has_ambiguous_union_default(node, table)

        def bytes_default(case, message):
            node, table = M.resolve(case["schema"])
            return any(
                "default" in f and M.deref(f["type"], table)["k"] in ("bytes", "fixed")
                for d in table.values() if d["k"] == "record" for f in d["fields"]
            )

        return {"ambiguous_union_default": ambiguous_union_default, "bytes_default": bytes_default}


CHECK = C01()

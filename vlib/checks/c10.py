"""C10 - validate accepts exactly conforming data and agrees with what writers accept."""
import io

import fastavro
from fastavro.validation import validate, validate_many
from fastavro._validate_common import ValidationError
from fastavro.write import Writer
from hypothesis import strategies as st

from .. import gen, bincase, tagged, logicalcase
from ..ref import model as M
from ..ref import binary as B
from ..runner import Check, Violation, guard, outcome, HarnessError

import datetime as _dt
import decimal as _dec
import uuid as _uuid

from ..ref import select as S

_UTC = _dt.timezone.utc
LOGICAL_CASES = [
    # (schema, conforming values, non-conforming values)
    ({"type": "int", "logicalType": "date"}, [_dt.date(2020, 2, 29), _dt.date(1, 1, 1), 18000], ["x", 1.5, None, 2**31]),
    ({"type": "long", "logicalType": "timestamp-millis"}, [_dt.datetime(2000, 1, 1, tzinfo=_UTC), _dt.datetime(1960, 1, 1, 12, 0, 0, 999000, tzinfo=_UTC), 5], ["x", None, 2**63]),
    ({"type": "long", "logicalType": "timestamp-micros"}, [_dt.datetime(9999, 12, 31, 23, 59, 59, 999999, tzinfo=_UTC), 0], [b"x", 1.5]),
    ({"type": "long", "logicalType": "local-timestamp-micros"}, [_dt.datetime(1970, 1, 1), 7], ["2020", None]),
    ({"type": "int", "logicalType": "time-millis"}, [_dt.time(23, 59, 59, 999000), 0], ["x", 2**31]),
    ({"type": "long", "logicalType": "time-micros"}, [_dt.time(0, 0, 0, 1), 86399999999], [None, 1.5]),
    ({"type": "string", "logicalType": "uuid"}, [_uuid.UUID(int=5), "00000000-0000-0000-0000-000000000005"], [5, None, b"x"]),
    ({"type": "bytes", "logicalType": "decimal", "precision": 6, "scale": 2}, [_dec.Decimal("1234.56"), _dec.Decimal("-0.01"), b"\x01"], ["1.5", 1.5, None, _dec.Decimal("12345.67"), _dec.Decimal("0.001"), _dec.Decimal("NaN"), _dec.Decimal("-Infinity")]),
    ({"type": "fixed", "name": "D8", "size": 8, "logicalType": "decimal", "precision": 10, "scale": 3}, [_dec.Decimal("1234567.891"), b"\x00" * 8], [b"\x00", "x", 5, _dec.Decimal("12345678901"), _dec.Decimal("0.0001"), _dec.Decimal("Infinity"), _dec.Decimal("sNaN")]),
    ({"type": "fixed", "name": "D2", "size": 2, "logicalType": "decimal", "precision": 4, "scale": 2}, [_dec.Decimal("99.99"), _dec.Decimal("-99.99")], [_dec.Decimal("9999"), _dec.Decimal("-9999"), _dec.Decimal("1.234")]),
    # a logical type the library does not know is ignored: the underlying type rules
    ({"type": "string", "logicalType": "x-unknown-thing"}, ["text", ""], [5, None, b"x"]),
    ({"type": "record", "name": "UL", "fields": [{"name": "a", "type": {"type": "long", "logicalType": "duration-ish"}}, {"name": "b", "type": ["null", {"type": "bytes", "logicalType": "unknown", "precision": 3}]}]},
     [{"a": 5, "b": b"xy"}, {"a": -1, "b": None}], [{"a": "5", "b": None}, {"a": 1, "b": 7}]),
    ({"type": "record", "name": "LR", "fields": [{"name": "d", "type": ["null", {"type": "int", "logicalType": "date"}], "default": None},
                                                  {"name": "ts", "type": {"type": "array", "items": {"type": "long", "logicalType": "timestamp-millis"}}},
                                                  {"name": "u", "type": {"type": "map", "values": {"type": "string", "logicalType": "uuid"}}}]},
     [{"d": _dt.date(2020, 1, 1), "ts": [_dt.datetime(2000, 1, 1, tzinfo=_UTC)], "u": {"k": _uuid.UUID(int=1)}}, {"ts": [], "u": {}}],
     [{"d": "x", "ts": [], "u": {}}, {"ts": [None], "u": {}}, {"ts": [], "u": {"k": 5}}, {"u": {}}]),
]

POOL = [None, True, 5, 2**40, 1.5, "str", b"by", [1], {"k": 1}, ("int", 5), -1, 0, 1, 0.0, 1.0, False, "", b"", [], {}, "1", "true"]
MARK = b"\x0c" * 16


class Mutator:
    def __init__(self, d, table, tn):
        self.d = d
        self.table = table
        self.tn = tn
        self.kind = None

    def any_wrong(self, node):
        cands = [v for v in POOL if not B.conforms(node, self.table, v, self.tn)]
        return self.d.choice(cands) if cands else None

    def mutate(self, node, datum, depth=0, under_union=False):
        """Returns a datum with (at most) one mutation at a drawn position."""
        d, table = self.d, self.table
        n = M.deref(node, table)
        k = n["k"]
        stop = d.p(0.35) or depth > 6
        if k == "union":
            v = datum
            hinted = isinstance(datum, tuple) and self.tn
            if not hinted and self.tn and stop and d.p(0.3):
                self.kind = "wrong-hint"
                return (d.choice(["nope", "Int", "recrd", ""]), datum)
            if hinted:
                if d.p(0.5):
                    self.kind = "wrong-hint"
                    return (d.choice(["nope", "Int", "recrd"]), datum[1])
                name, v = datum
                for b in n["branches"]:
                    if M.branch_name(b, table) == name:
                        return (name, self.mutate(b, v, depth + 1, True))
                return datum
            if stop:
                self.kind = "wrong-type"
                w = self.any_wrong(n)
                return w
            for b in n["branches"]:
                if B.conforms(b, table, datum, self.tn):
                    return self.mutate(b, datum, depth + 1, True)
            return datum
        if k == "record" and isinstance(datum, dict) and not stop and n["fields"]:
            present = [f for f in n["fields"] if f["name"] in datum]
            w = d.i(4)
            if under_union and d.p(0.35):
                w = 1
            if w == 0:
                req = [f for f in present if "default" not in f]
                if req:
                    f = d.choice(req)
                    self.kind = "missing-field"
                    return {kk: vv for kk, vv in datum.items() if kk != f["name"]}
            if w == 1 and under_union:
                # '-type' is a hint only where a union holds the record
                self.kind = "wrong-type-hint"
                out = dict(datum)
                out["-type"] = d.choice(["Nope", n["name"] + "x"])
                return out
            if present:
                f = d.choice(present)
                out = dict(datum)
                out[f["name"]] = self.mutate(f["type"], datum[f["name"]], depth + 1)
                return out
        if k == "array" and isinstance(datum, list) and datum and not stop:
            i = d.i(len(datum))
            out = list(datum)
            out[i] = self.mutate(n["items"], datum[i], depth + 1)
            return out
        if k == "map" and isinstance(datum, dict) and not stop:
            if datum and d.p(0.6):
                key = d.choice(list(datum))
                out = dict(datum)
                out[key] = self.mutate(n["values"], datum[key], depth + 1)
                return out
            self.kind = "non-string-key"
            out = dict(datum)
            out[d.choice([5, None, b"k", 1.5])] = next(iter(datum.values())) if datum else None
            return out
        # leaf-level mutations
        if k in ("int", "long") and d.p(0.85):
            self.kind = d.choice(["out-of-range", "bool-for-int"])
            if self.kind == "bool-for-int":
                return d.p(0.5)
            lim = 2**31 if k == "int" else 2**63
            return d.choice([lim, -lim - 1, lim + 5, 2**70])
        if k == "fixed" and d.p(0.85):
            self.kind = "wrong-fixed-size"
            return b"x" * (n["size"] + d.choice([1, -1]) if n["size"] > 0 else 1)
        if k == "enum" and d.p(0.85):
            self.kind = "unknown-symbol"
            return d.choice(["NOPE", "", n["symbols"][0] + "_", n["symbols"][0].lower() + "q"])
        self.kind = "wrong-type"
        return self.any_wrong(n)


class C10(Check):
    pid = "C10"
    level = "exploration"
    rule = (
        "Generated (schema, datum, options): the datum conforms by construction and, in ~55% of cases, receives one "
        "mutation at a drawn position (wrong Python type, out-of-range int, bool for int, wrong fixed size, unknown "
        "symbol, non-string map key, missing required field, wrong (name,value) or '-type' hint); options drawn over "
        "raise_errors x strict x disable_tuple_notation. Oracle: the independent conformance predicate (documented Python "
        "mapping). validate(raise_errors=False) must equal it; raise_errors=True must raise ValidationError exactly when "
        "False; validate_many must agree; accepted data must be encoded by schemaless_writer and writer(validator=True) "
        "and round-trip to the documented normalisation; rejected data must make Writer(validator=True).write raise with "
        "the stream and pending block byte-identical to a twin writer that never saw the record; strict: a record lacking a "
        "default-less field is rejected by validate(strict) and by the strict writer. Non-trivial = mutated datum or "
        "non-default options. Distinct by digest."
    )
    assumptions = ["float-typed leaves representable in the target width", "tuples of length != 2 at union positions appear in fixed cases only",
                   "data are built from the Python types the statement lists; look-alike number types (fractions.Fraction, numpy scalars: fastavro accepts numbers.Integral / numbers.Real by design) are outside the domain"]
    required_labels = ["expected:True", "expected:False", "strict", "raise_errors", "no-tuple-notation", "rejected-by-writer", "accepted-roundtrip",
                       "mut:wrong-type", "mut:out-of-range", "mut:bool-for-int", "mut:wrong-fixed-size", "mut:unknown-symbol", "mut:non-string-key", "mut:missing-field", "mut:wrong-hint", "mut:wrong-type-hint", "strict-missing-nullable", "appending-writer", "logical-values", "logical-generated", "logical-by-name", "validate_many:several", "rejected-by-writer-function", "mapping-with-missing-hook"]
    quick = (5000, 1)
    thorough = (10000, 16)

    def __init__(self):
        self.feat = gen.Features(hints=0.25, big=False, dict_null=True, dict_prims=0.12)

    def selftest(self):
        B.selftest()

    def strategy(self, tier):
        feat = self.feat

        @st.composite
        def cases(draw):
            d = gen.D(draw)
            if d.p(0.08):
                # unions of logical branches: the oracle is the reference predicate extended with the logical domains
                c = logicalcase.logical_union_case(d)
                n2, t2 = M.resolve(c["schema"])
                return {"schema": c["schema"], "datum": c["datum"], "mutation": None if S.conforms(n2, t2, c["datum"]) else "wrong-type", "strict": False, "raise_errors": d.p(0.5),
                        "tuple_notation": True, "parsed": c["parsed"], "append": d.p(0.3), "logical": True, "logical_expect": S.conforms(n2, t2, c["datum"]), "generated": True, "by_name_logical": c.get("by_name_logical", False)}
            ir, table, js = gen.build_schema(d, feat)
            gen.check_truth(ir, table, js)
            tn = not d.p(0.25)
            f2 = feat if tn else gen.Features(**dict(feat.__dict__, hints=0.0, tuples_in_unions=True))
            dg = gen.DataGen(d, f2, table)
            datum = dg.gen(ir, 5)
            kind = None
            if d.p(0.55):
                m = Mutator(d, table, tn)
                datum = m.mutate(ir, datum)
                kind = m.kind
            return {"schema": js, "datum": datum, "mutation": kind, "strict": d.p(0.3), "raise_errors": d.p(0.4), "tuple_notation": tn, "parsed": d.p(0.3), "append": d.p(0.3)}

        return cases()

    def fixed_cases(self, tier):
        base = {"mutation": None, "strict": False, "raise_errors": False, "tuple_notation": True, "parsed": False}
        for js, good, bad in LOGICAL_CASES:
            for v in good:
                for raise_errors in (False, True):
                    yield dict(base, schema=js, datum=v, raise_errors=raise_errors, logical=True, logical_expect=True, parsed=raise_errors)
            for v in bad:
                for raise_errors in (False, True):
                    yield dict(base, schema=js, datum=v, raise_errors=raise_errors, logical=True, logical_expect=False, mutation="wrong-type")
        opt = {"type": "record", "name": "R", "fields": [{"name": "a", "type": ["null", "int"]}, {"name": "b", "type": "int", "default": 3}]}
        yield dict(base, schema=opt, datum={})
        yield dict(base, schema=opt, datum={}, strict=True)
        yield dict(base, schema=opt, datum={"a": None}, strict=True)
        # a '-type' key naming no branch, on a mapping held by a union (top level, nested, by-name branch)
        dog = {"type": "record", "name": "zoo.Dog", "fields": [{"name": "legs", "type": "int"}]}
        cat = {"type": "record", "name": "zoo.Cat", "fields": [{"name": "legs", "type": "int"}, {"name": "lives", "type": "int", "default": 9}]}
        for re_ in (False, True):
            yield dict(base, schema=["null", dog, cat], datum={"legs": 4, "-type": "zoo.Bird"}, raise_errors=re_, mutation="wrong-type-hint")
            yield dict(base, schema=["null", dog, cat], datum={"legs": 4, "-type": "zoo.Cat"}, raise_errors=re_)
            yield dict(base, schema={"type": "record", "name": "zoo.Pen", "fields": [{"name": "first", "type": dog}, {"name": "pets", "type": {"type": "array", "items": ["zoo.Dog", cat]}}]},
                       datum={"first": {"legs": 4}, "pets": [{"legs": 4, "-type": "zoo.Cat"}, {"legs": 3, "-type": "Dog"}]}, raise_errors=re_, mutation="wrong-type-hint")
        # mappings that invent values for missing keys (collections.defaultdict, Counter): a field is present only when the
        # key is; validation must not read (and thereby create) what is not there
        need_b = {"type": "record", "name": "NeedsB", "fields": [{"name": "a", "type": "string"}, {"name": "b", "type": "int"}, {"name": "c", "type": ["null", "long"]}]}
        for re_ in (False, True):
            for st_ in (False, True):
                yield dict(base, schema=need_b, datum={"a": "x", "c": 5}, as_defaultdict="int", raise_errors=re_, strict=st_, mutation="missing-field")
                yield dict(base, schema=need_b, datum={"a": "x", "b": 1}, as_defaultdict="none", raise_errors=re_, strict=st_, mutation="missing-field" if st_ else None)
                yield dict(base, schema={"type": "array", "items": need_b}, datum=[{"a": "x", "b": 1, "c": None}, {"a": "y", "c": None}], as_defaultdict="int", raise_errors=re_, strict=st_, mutation="missing-field")
        # a tuple that is not a (name, value) pair at a union position is not a hint and not a conforming datum (8fe81e8)
        ua = ["null", {"type": "array", "items": "int"}, "string"]
        for re_ in (False, True):
            for t in ((1, 2, 3), (), (1,), ("string", "x", "y")):
                yield dict(base, schema=ua, datum=t, raise_errors=re_, mutation="wrong-hint")
            yield dict(base, schema={"type": "record", "name": "TU", "fields": [{"name": "u", "type": ua}]}, datum={"u": (1, 2, 3)}, raise_errors=re_, mutation="wrong-hint")
            yield dict(base, schema=ua, datum=(1, 2, 3), raise_errors=re_, tuple_notation=False)
        yield dict(base, schema="int", datum=True)
        yield dict(base, schema="int", datum=2**31)
        yield dict(base, schema=[{"type": "enum", "name": "n.E", "symbols": ["A"]}, "string"], datum=("n.E", "A"))
        yield dict(base, schema={"type": "record", "name": "N", "fields": [{"name": "z", "type": {"type": "null"}}]}, datum={})

    def run_case(self, case):
        js = case["schema"]
        node, table = M.resolve(js)
        tn = case["tuple_notation"]
        strict = case["strict"]
        datum = case["datum"]
        if case.get("as_defaultdict"):
            import collections as _c
            factory = int if case["as_defaultdict"] == "int" else (lambda: None)
            conv = lambda m: _c.defaultdict(factory, m)  # noqa: E731
            datum = [conv(m) for m in datum] if isinstance(datum, list) else conv(datum)
            before_keys = [sorted(m) for m in (datum if isinstance(datum, list) else [datum])]
        labels = set()
        if case.get("mutation"):
            labels.add("mut:" + case["mutation"])
        if strict:
            labels.add("strict")
        if not tn:
            labels.add("no-tuple-notation")
        schema = bincase.fa_schema(fastavro, case)
        if case.get("logical"):
            # logical-type values: the canonical Python type (or the underlying raw value) conforms; oracle given per case
            labels.add("logical-values")
            if case.get("generated"):
                labels.add("logical-generated")
            if case.get("by_name_logical"):
                labels.add("logical-by-name")
            want = case["logical_expect"]
        else:
            want = B.conforms(node, table, datum, tuple_notation=tn, strict=strict)
        labels.add(f"expected:{want}")
        if strict and not want and B.conforms(node, table, datum, tuple_notation=tn, strict=False):
            labels.add("strict-missing-nullable")
        kw = {"strict": strict, "disable_tuple_notation": not tn}
        ctx = f"datum={datum!r:.200} schema={js!r:.300} strict={strict} tuple_notation={tn}"
        if not strict and tn and not case.get("logical"):
            # the documented defaults (raise_errors=True, strict=False, tuple notation on) used implicitly
            o = bincase_outcome(validate, datum, schema)
            if want and (o[0] != "ok" or o[1] is not True):
                raise Violation("validate-defaults-reject-conforming", f"validate(datum, schema) with default options: {o!r:.200}; {ctx if False else ''}datum={datum!r:.150} schema={js!r:.200}")
            if not want and (o[0] == "ok" or not isinstance(o[1], ValidationError)):
                raise Violation("validate-defaults-accept-nonconforming", f"validate(datum, schema) with default options: {o!r:.200}; datum={datum!r:.150} schema={js!r:.200}")
            om = bincase_outcome(validate_many, [datum], schema)
            if want and (om[0] != "ok" or om[1] is not True):
                raise Violation("validate_many-defaults-reject-conforming", f"validate_many([datum], schema) with default options: {om!r:.200}; datum={datum!r:.150} schema={js!r:.200}")
            if not want and (om[0] == "ok" or not isinstance(om[1], ValidationError)):
                raise Violation("validate_many-defaults-accept-nonconforming", f"validate_many([datum], schema) with default options: {om!r:.200}; datum={datum!r:.150} schema={js!r:.200}")
        got = guard("validate", validate, datum, schema, raise_errors=False, **kw)
        if case.get("as_defaultdict"):
            labels.add("mapping-with-missing-hook")
            after_keys = [sorted(m) for m in (datum if isinstance(datum, list) else [datum])]
            if after_keys != before_keys:
                raise Violation("validate-adds-keys-to-datum", f"validate inserted keys into the caller's mapping: {before_keys} -> {after_keys}; {ctx}")
        if got is not want:
            raise Violation(f"validate-returns-{got}-expected-{want}" + (":" + case["mutation"] if case.get("mutation") else ""), ctx)
        if case["raise_errors"]:
            labels.add("raise_errors")
            o = bincase_outcome(validate, datum, schema, raise_errors=True, **kw)
            if want:
                if o[0] != "ok" or o[1] is not True:
                    raise Violation("validate-raises-on-conforming", f"{o!r:.200}; {ctx}")
            else:
                if o[0] == "ok":
                    raise Violation("validate-does-not-raise", f"returned {o[1]!r}; {ctx}")
                if not isinstance(o[1], ValidationError):
                    raise Violation("validate-raises-other-error:" + type(o[1]).__name__, f"{o[1]!r:.200}; {ctx}")
        # validate_many
        many = guard("validate_many", validate_many, [datum], schema, raise_errors=False, **kw)
        if many is not want:
            raise Violation("validate_many-disagrees", f"validate_many([datum]) = {many}, validate = {want}; {ctx}")
        # ... and over several records: the verdict is the conjunction, wherever the bad record stands
        goodrec = self._good_record(node, table)
        if goodrec is not None and not case.get("logical") and B.conforms(node, table, goodrec[0], tuple_notation=tn, strict=strict):
            labels.add("validate_many:several")
            for recs, where in (([goodrec[0], datum], "last"), ([datum, goodrec[0]], "first"), ([goodrec[0], datum, goodrec[0]], "middle")):
                many = guard("validate_many", validate_many, recs, schema, raise_errors=False, **kw)
                if many is not want:
                    raise Violation("validate_many-disagrees:several", f"validate_many with the datum {where} among conforming records = {many}, validate(datum) = {want}; {ctx}")
        wkw = {"disable_tuple_notation": not tn}
        if not want and not strict and goodrec is not None:
            # the writer function with validation enabled refuses the whole call
            o = bincase_outcome(fastavro.writer, io.BytesIO(), schema, [goodrec[0], datum], validator=True, **wkw)
            if o[0] == "ok":
                raise Violation("validating-writer-function-accepts-rejected-datum", ctx)
            labels.add("rejected-by-writer-function")
        if want and not strict:
            # writers encode it and it round-trips
            fo = io.BytesIO()
            guard("writer-refuses-validated-datum", fastavro.schemaless_writer, fo, schema, datum, **wkw)
            blob = fo.getvalue()
            if case.get("logical"):
                norm = None
            else:
                try:
                    _, norm, _ = bincase.expected_for(node, table, datum, blob, tuple_notation=tn)
                except (B.RefError, B.NotConforming):
                    _, norm = B.encode(node, table, datum, tuple_notation=tn)
            got_v = guard("read-own-output", fastavro.schemaless_reader, io.BytesIO(blob), schema)
            if norm is None:
                norm = got_v  # logical values: representation is C16's concern; here only "encodes and reads back"
            if not B.same(got_v, norm):
                raise Violation("validated-datum-roundtrip", f"read back {got_v!r:.150}, expected {norm!r:.150}; {ctx}")
            fo = io.BytesIO()
            guard("validating-writer-refuses-validated-datum", fastavro.writer, fo, schema, [datum], validator=True, sync_marker=MARK, **wkw)
            fo.seek(0)
            got_c = guard("read-container", lambda: list(fastavro.reader(fo)))
            if len(got_c) != 1 or not B.same(got_c[0], norm):
                raise Violation("validated-datum-container-roundtrip", f"container read back {got_c!r:.150}, expected [{norm!r:.150}]; {ctx}")
            labels.add("accepted-roundtrip")
        if not want and not strict:
            # a validating writer rejects it before emitting any byte of that record
            good = self._good_record(node, table)
            a, b = io.BytesIO(), io.BytesIO()
            opts = {"strict": False, "strict_allow_default": False, "disable_tuple_notation": not tn}
            if case.get("append"):
                # the documented way to append: an existing file, schema=None
                labels.add("appending-writer")
                for fo in (a, b):
                    guard("write-container", fastavro.writer, fo, schema, [good[0]] if good else [], sync_marker=MARK)
                    fo.seek(0, 2)
                wa = guard("reopen-for-append", Writer, a, None, validator=True, options=opts)
                wb = guard("reopen-for-append", Writer, b, None, validator=True, options=opts)
            else:
                wa = guard("create-writer", Writer, a, schema, validator=True, sync_marker=MARK, options=opts)
                wb = guard("create-writer", Writer, b, schema, validator=True, sync_marker=MARK, options=opts)
            if good is not None:
                guard("write-conforming-record", wa.write, good[0])
                guard("write-conforming-record", wb.write, good[0])
            o = bincase_outcome(wa.write, datum)
            if o[0] == "ok":
                raise Violation("validating-writer-accepts-rejected-datum", ctx)
            labels.add("rejected-by-writer")
            if good is not None:
                guard("write-conforming-record", wa.write, good[0])
                guard("write-conforming-record", wb.write, good[0])
            wa.flush()
            wb.flush()
            if a.getvalue() != b.getvalue():
                raise Violation("rejected-record-left-bytes", f"stream after a rejected record differs from a twin that never saw it ({len(a.getvalue())} vs {len(b.getvalue())} bytes); {ctx}")
        if strict and "strict-missing-nullable" in labels:
            o = bincase_outcome(self._strict_write, schema, datum, wkw)
            if o[0] == "ok":
                raise Violation("strict-writer-accepts-missing-field", ctx)
        return labels

    def _strict_write(self, schema, datum, wkw):
        fastavro.schemaless_writer(io.BytesIO(), schema, datum, strict=True, **wkw)

    def _good_record(self, node, table):
        """A fixed conforming datum for the schema (minimal one), or None if construction fails."""
        try:
            heights, nh = M.min_heights(table)

            def mk(n, budget=8):
                k = n["k"]
                if k == "ref":
                    return mk(table[n["name"]], budget)
                if k == "null":
                    return None
                if k == "boolean":
                    return True
                if k in ("int", "long"):
                    return 1
                if k in ("float", "double"):
                    return 1.5
                if k == "bytes":
                    return b"b"
                if k == "string":
                    return "s"
                if k == "fixed":
                    return b"f" * n["size"]
                if k == "enum":
                    return n["symbols"][0]
                if k == "array":
                    return []
                if k == "map":
                    return {}
                if k == "record":
                    return {f["name"]: mk(f["type"], budget - 1) for f in n["fields"]}
                if k == "union":
                    b = min(n["branches"], key=nh)
                    return mk(b, budget - 1)
            v = mk(node)
            if not B.conforms(node, table, v):
                return None
            return (v,)
        except Exception:
            return None

    def nontrivial(self, labels):
        return bool(any(l.startswith("mut:") for l in labels) or labels & {"strict", "raise_errors", "no-tuple-notation"})


def bincase_outcome(fn, *a, **k):
    try:
        return ("ok", fn(*a, **k))
    except RecursionError as e:
        return ("exc", e)
    except Exception as e:  # noqa
        return ("exc", e)


CHECK = C10()

"""C20 - generate_one / generate_many always produce data that conforms to the schema."""
import io
import random as _random

import fastavro
import fastavro.utils as U
from fastavro.utils import generate_one, generate_many
from fastavro.validation import validate
from hypothesis import strategies as st

from .. import gen, bincase, tagged
from ..ref import model as M
from ..ref import binary as B
from ..runner import Check, Violation, guard, outcome, HarnessError


class TapeRandom:
    """Stand-in for the library's random source: answers come from a recorded tape
    [(mode, fraction)] with the end points of every documented range favoured."""

    def __init__(self, tape):
        self.tape = tape or [["frac", 0.5]]
        self.i = 0
        self.calls = 0

    def _next(self):
        m, x = self.tape[self.i % len(self.tape)]
        self.i += 1
        self.calls += 1
        return m, x

    def randint(self, a, b):
        m, x = self._next()
        if m == "lo":
            return a
        if m == "hi":
            return b
        if m == "lo+1":
            return min(b, a + 1)
        if m == "hi-1":
            return max(a, b - 1)
        return a + int(x * (b - a + 1)) if b >= a else a

    def random(self):
        m, x = self._next()
        if m == "lo":
            return 0.0
        if m == "hi":
            return 1.0 - 2**-53
        return x

    def getrandbits(self, k):
        m, x = self._next()
        if m == "lo":
            return 0
        if m == "hi":
            return 2**k - 1
        return int(x * (2**k - 1))

    def __getattr__(self, name):
        # anything else the library may come to use (choice, randrange, randbytes, ...) is served by the real module
        return getattr(_random, name)

    def choices(self, population, k=1):
        out = []
        for _ in range(k):
            m, x = self._next()
            idx = 0 if m == "lo" else (len(population) - 1 if m == "hi" else int(x * len(population)) % len(population))
            out.append(population[idx])
        return out


class C20(Check):
    pid = "C20"
    level = "exploration"
    rule = (
        "Generated valid schemas (all kinds, by-name references, logical types, sub-critical recursion) x n in 0..5 x a "
        "random source: (a) adversarial - fastavro.utils.random is replaced by a stub answering randint/random/getrandbits/"
        "choices from a Hypothesis-drawn tape that favours the end points of every requested range (non-recursive schemas "
        "only, since a tape can force endless recursion no real generator state produces); (b) the real random module under a "
        "drawn seed. Oracle: generate_many yields exactly n values, generate_one one; each value validates, is written by "
        "schemaless_writer and writer, and is read back without error. Non-trivial = schema with a logical type, reference, "
        "union or collection and n>=1. Distinct by digest."
    )
    assumptions = ["recursion is generated sub-critically (self reference behind a union with a non-recursive branch); array/map recursion is the known finding F-GENERATE-SUPERCRITICAL", "uuid.uuid4 (os.urandom) is not part of the library's random source"]
    required_labels = ["mode:tape", "mode:seed", "n:0", "n>=2", "s:logical", "s:recursive", "s:ref", "tape:endpoints", "generate_one", "interleaved-generators", "schema-object-reused-with-new-contents"]
    quick = (2500, 1)
    thorough = (5000, 16)

    def __init__(self):
        self.feat = gen.Features(big=False, max_depth=3, max_named=5)

    def selftest(self):
        B.selftest()

    def strategy(self, tier):
        feat = self.feat

        @st.composite
        def cases(draw):
            d = gen.D(draw)
            recursive_ok = d.p(0.25)
            f = gen.Features(**dict(feat.__dict__, recursion=recursive_ok))
            ir, table, js = gen.build_schema(d, f)
            # recursion only through unions (sub-critical): retry without recursion when an array/map carries it
            if recursive_ok and self._supercritical(ir, table):
                f = gen.Features(**dict(feat.__dict__, recursion=False))
                ir, table, js = gen.build_schema(d, f)
            ir2, table2 = gen.cosmetic_variant(d, ir, table)
            self._sanitize(ir2, table2)
            js = gen.Renderer(d, f, table2).render(ir2, "")
            labels = gen.schema_labels(ir, table)
            mode = "seed" if ("s:recursive" in labels or d.p(0.35)) else "tape"
            tape = []
            if mode == "tape":
                for _ in range(d.rng(1, 12)):
                    tape.append([d.choice(["lo", "hi", "frac", "lo+1", "hi-1", "frac"]), draw(st.floats(0, 1, exclude_max=True))])
            return {"schema": js, "n": d.choice([1, 2, 3, 5, 1, 0]), "mode": mode, "tape": tape, "seed": d.rng(0, 10**6), "parsed": d.p(0.4)}

        return cases()

    def _sanitize(self, ir, table):
        """Defaults drawn for the undecorated types may lie outside a logical type's domain (int 2147483647 as a
        date): the defaults of fields whose type carries a logical annotation are dropped.  A uuid string next to an enum in one union is known finding F-UUID-UNCHECKED."""
        def has_logical(node, seen):
            if "logical" in node:
                return True
            k = node["k"]
            if k == "ref":
                if node["name"] in seen or node["name"] not in table:
                    return False
                seen.add(node["name"])
                return has_logical(table[node["name"]], seen)
            if k == "record":
                return any(has_logical(f["type"], seen) for f in node["fields"])
            if k == "array":
                return has_logical(node["items"], seen)
            if k == "map":
                return has_logical(node["values"], seen)
            if k == "union":
                return any(has_logical(b, seen) for b in node["branches"])
            return False

        def visit(node):
            k = node["k"]
            if k == "record":
                for f in node["fields"]:
                    if has_logical(f["type"], set()):
                        f.pop("default", None)
                    visit(f["type"])
            elif k == "array":
                visit(node["items"])
            elif k == "map":
                visit(node["values"])
            elif k == "union":
                multi = sum(1 for b in node["branches"] if b["k"] != "null") >= 2
                for b in node["branches"]:
                    if multi:
                        strip_uuid(b, set())
                    visit(b)

        def strip_uuid(node, seen):
            if node.get("logical", {}).get("type") == "uuid":
                del node["logical"]
                self.excluded_uuid = getattr(self, "excluded_uuid", 0) + 1
            k = node["k"]
            if k == "ref":
                if node["name"] not in seen and node["name"] in table:
                    seen.add(node["name"])
                    strip_uuid(table[node["name"]], seen)
            elif k == "record":
                if node["name"] in seen and node is not table.get(node["name"]):
                    return
                seen.add(node["name"])
                for f in node["fields"]:
                    strip_uuid(f["type"], seen)
            elif k == "array":
                strip_uuid(node["items"], seen)
            elif k == "map":
                strip_uuid(node["values"], seen)
            elif k == "union":
                for b in node["branches"]:
                    strip_uuid(b, seen)
        visit(ir)

    def _uuid_next_to_enum(self, node, table, seen=None):
        seen = seen if seen is not None else set()
        k = node["k"]
        if k == "ref":
            if node["name"] in seen:
                return False
            seen.add(node["name"])
            return self._uuid_next_to_enum(table[node["name"]], table, seen)
        if k == "record":
            seen.add(node["name"])
            return any(self._uuid_next_to_enum(f["type"], table, seen) for f in node["fields"])
        if k == "array":
            return self._uuid_next_to_enum(node["items"], table, seen)
        if k == "map":
            return self._uuid_next_to_enum(node["values"], table, seen)
        if k == "union":
            ks = [M.deref(b, table) for b in node["branches"]]
            if any(b.get("logical", {}).get("type") == "uuid" for b in ks) and any(b["k"] == "enum" for b in ks):
                return True
            # the same defect one level down: a branch holding uuid strings (array / map of them) next to a branch whose
            # values also conform to it (a record is a string-valued mapping when its fields are enums or strings)
            if sum(1 for b in ks if b["k"] != "null") >= 2 and any(self._has_uuid(b, table, set()) for b in node["branches"]):
                return True
            return any(self._uuid_next_to_enum(b, table, seen) for b in node["branches"])
        return False

    def _has_uuid(self, node, table, seen):
        if node.get("logical", {}).get("type") == "uuid":
            return True
        k = node["k"]
        if k == "ref":
            if node["name"] in seen or node["name"] not in table:
                return False
            seen.add(node["name"])
            return self._has_uuid(table[node["name"]], table, seen)
        if k == "record":
            return any(self._has_uuid(f["type"], table, seen) for f in node["fields"])
        if k == "array":
            return self._has_uuid(node["items"], table, seen)
        if k == "map":
            return self._has_uuid(node["values"], table, seen)
        if k == "union":
            return any(self._has_uuid(b, table, seen) for b in node["branches"])
        return False

    def _offspring_radius(self, ir, table):
        """gen_data is a branching process: a union picks a branch uniformly, arrays and maps produce 10 children.  Returns
        the spectral radius of the mean-offspring matrix over the record types (>= 1: generation does not terminate with
        positive probability, in practice RecursionError)."""
        recs = [n for n, t in table.items() if t["k"] == "record"]
        if not recs:
            return 0.0
        idx = {n: i for i, n in enumerate(recs)}

        def expect(node, weight, row, depth=0):
            k = node["k"]
            if k == "ref":
                t = table.get(node["name"])
                if t is not None and t["k"] == "record":
                    row[idx[node["name"]]] += weight
                return
            if k == "record":
                # an inline definition: one instance of that record
                row[idx[node["name"]]] += weight
                return
            if k == "array":
                expect(node["items"], weight * 10, row, depth + 1)
            elif k == "map":
                expect(node["values"], weight * 10, row, depth + 1)
            elif k == "union":
                for b in node["branches"]:
                    expect(b, weight / len(node["branches"]), row, depth + 1)

        m = []
        for n in recs:
            row = [0.0] * len(recs)
            for f in table[n]["fields"]:
                expect(f["type"], 1.0, row)
            m.append(row)
        # power iteration on M + I (a cycle A -> A1 -> A makes M periodic: iterating M itself oscillates)
        v = [1.0] * len(recs)
        rad = 1.0
        for _ in range(200):
            w = [v[i] + sum(m[i][j] * v[j] for j in range(len(recs))) for i in range(len(recs))]
            rad = max(w)
            v = [x / rad for x in w]
        return rad - 1.0

    def _supercritical(self, ir, table):
        """Does generation fail to terminate with positive probability (mean offspring of the recursion >= ~1)?"""
        if self._offspring_radius(ir, table) >= 0.9:
            return True
        found = []

        def visit(node, path, via):
            k = node["k"]
            if k == "ref":
                if node["name"] in path:
                    if via:
                        found.append(node["name"])
                return
            if k == "record":
                for f in node["fields"]:
                    visit(f["type"], path + [node["name"]], False if False else via)
            elif k == "array":
                visit(node["items"], path, True)
            elif k == "map":
                visit(node["values"], path, True)
            elif k == "union":
                for b in node["branches"]:
                    visit(b, path, via)

        visit(ir, [], False)
        return bool(found)

    def fixed_cases(self, tier):
        lt = {"type": "record", "name": "L", "fields": [
            {"name": "d", "type": {"type": "int", "logicalType": "date"}},
            {"name": "tm", "type": {"type": "int", "logicalType": "time-millis"}},
            {"name": "tu", "type": {"type": "long", "logicalType": "time-micros"}},
            {"name": "ts", "type": {"type": "long", "logicalType": "timestamp-millis"}},
            {"name": "tsu", "type": {"type": "long", "logicalType": "timestamp-micros"}},
            {"name": "lts", "type": {"type": "long", "logicalType": "local-timestamp-millis"}},
            {"name": "ltsu", "type": {"type": "long", "logicalType": "local-timestamp-micros"}},
            {"name": "u", "type": {"type": "string", "logicalType": "uuid"}},
            {"name": "dec", "type": {"type": "bytes", "logicalType": "decimal", "precision": 5, "scale": 2}},
            {"name": "fdec", "type": {"type": "fixed", "name": "FD", "size": 4, "logicalType": "decimal", "precision": 9, "scale": 0}},
        ]}
        for mode in (["lo", 0.0], ["hi", 0.0], ["lo+1", 0.0], ["hi-1", 0.0]):
            yield {"schema": lt, "n": 2, "mode": "tape", "tape": [mode], "seed": 0, "parsed": False}
        # type names that are fragments of the primitive type names, used by reference (null namespace and namespaced)
        for names in (["e", "f", "t"], ["at", "do", "lo"], ["oat", "ub", "in"], ["ns.e", "ns.f", "ns.t"], ["ng", "ull", "ri"], ["yt", "oo", "boolea"]):
            en, fx, rc = names
            frag = {"type": "record", "name": "Frag", "fields": [
                {"name": "a", "type": {"type": "enum", "name": en, "symbols": ["X", "Y"]}}, {"name": "b", "type": {"type": "fixed", "name": fx, "size": 3}},
                {"name": "c", "type": {"type": "record", "name": rc, "fields": [{"name": "v", "type": "int"}, {"name": "again", "type": ["null", en]}]}},
                {"name": "a2", "type": en}, {"name": "b2", "type": {"type": "array", "items": fx}}, {"name": "c2", "type": {"type": "map", "values": rc}}]}
            for seed in (0, 1):
                yield {"schema": frag, "n": 3, "mode": "seed", "tape": [], "seed": seed, "parsed": bool(seed)}
        ll = {"type": "record", "name": "LL", "fields": [{"name": "v", "type": "long"}, {"name": "next", "type": ["null", "LL"]}]}
        for seed in range(5):
            yield {"schema": ll, "n": 3, "mode": "seed", "tape": [], "seed": seed, "parsed": seed % 2 == 0}

    def run_case(self, case):
        js = case["schema"]
        node, table = M.resolve(js)
        labels = gen.schema_labels(node, table)
        if "logicalType" in repr(js):
            labels.add("s:logical")
        n = case["n"]
        labels.add("n:0" if n == 0 else ("n>=2" if n >= 2 else "n:1"))
        labels.add("mode:" + case["mode"])
        schema = bincase.fa_schema(fastavro, case)

        def produce():
            saved = U.random
            state = _random.getstate()
            try:
                if case["mode"] == "tape":
                    U.random = TapeRandom(case["tape"])
                    if any(m in ("lo", "hi") for m, _ in case["tape"]):
                        labels.add("tape:endpoints")
                else:
                    _random.seed(case["seed"])
                many = list(generate_many(schema, n))
                one = generate_one(schema)
                return many, one
            finally:
                U.random = saved
                _random.setstate(state)

        many, one = guard("generate", produce)
        labels.add("generate_one")
        # two generators alive at once over schemas that define the same names differently; and the same schema OBJECT
        # with new contents: results must depend on the argument's value only
        variant = gen.incompatible_variant(js)
        if variant is not None and case["mode"] == "seed" and n >= 1:
            labels.add("interleaved-generators")

            def interleaved():
                state = _random.getstate()
                try:
                    _random.seed(case["seed"])
                    ga, gb = generate_many(js, n), generate_many(variant, n)
                    out = []
                    for _ in range(n):
                        out.append((next(ga), next(gb)))
                    import copy as _c
                    obj = _c.deepcopy(js)
                    first = generate_one(obj)
                    if isinstance(obj, dict):
                        obj.clear()
                        obj.update(_c.deepcopy(variant))
                        second = generate_one(obj)
                    else:
                        second = None
                    return out, first, second
                finally:
                    _random.setstate(state)

            pairs, first, second = guard("generate", interleaved)
            vparsed = guard("parse-valid-schema", fastavro.parse_schema, variant)
            for a, b in pairs:
                if guard("validate-generated", validate, a, schema, raise_errors=False) is not True:
                    raise Violation("interleaved-generator-value-does-not-validate", f"value {a!r:.150} from generate_many(A) interleaved with generate_many(B) does not validate against A={js!r:.300}")
                guard("write-generated", fastavro.schemaless_writer, io.BytesIO(), schema, a)
                if guard("validate-generated", validate, b, vparsed, raise_errors=False) is not True:
                    raise Violation("interleaved-generator-value-does-not-validate", f"value {b!r:.150} from generate_many(B) does not validate against B={variant!r:.300}")
                guard("write-generated", fastavro.schemaless_writer, io.BytesIO(), vparsed, b)
            if second is not None:
                labels.add("schema-object-reused-with-new-contents")
                if guard("validate-generated", validate, second, vparsed, raise_errors=False) is not True:
                    raise Violation("generate_one-ignores-new-schema-contents", f"generate_one(obj) after obj was given new contents returned {second!r:.150}, which does not validate against the new contents {variant!r:.300}")
                guard("write-generated", fastavro.schemaless_writer, io.BytesIO(), vparsed, second)
        if len(many) != n:
            raise Violation("generate-count", f"generate_many(schema, {n}) yielded {len(many)} values; schema={js!r:.300}")
        for v in many + [one]:
            ctx = f"value={v!r:.200} schema={js!r:.300} mode={case['mode']} tape={case['tape']!r:.100}"
            ok = guard("validate-generated", validate, v, schema, raise_errors=False)
            if ok is not True:
                raise Violation("generated-value-does-not-validate", ctx)
            fo = io.BytesIO()
            guard("write-generated", fastavro.schemaless_writer, fo, schema, v)
            fo.seek(0)
            guard("read-generated", fastavro.schemaless_reader, fo, schema)
            if fo.tell() != len(fo.getvalue()):
                raise Violation("generated-value-read-short", ctx)
            cfo = io.BytesIO()
            guard("write-generated-container", fastavro.writer, cfo, schema, [v])
            cfo.seek(0)
            back = guard("read-generated-container", lambda: list(fastavro.reader(cfo)))
            if len(back) != 1:
                raise Violation("generated-value-container-count", ctx)
        return labels

    def nontrivial(self, labels):
        return bool(("n:0" not in labels) and labels & {"s:logical", "s:ref", "s:union", "s:array", "s:map"})

    def predicates(self):
        def supercritical(case, message):
            node, table = M.resolve(case["schema"])
            return self._supercritical(node, table)

        def uuid_enum(case, message):
            node, table = M.resolve(case["schema"])
            return self._uuid_next_to_enum(node, table)

        return {"supercritical-recursion": supercritical, "uuid-next-to-enum": uuid_enum}


CHECK = C20()

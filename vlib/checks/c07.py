"""C07 - any history of write / flush / write_block / failed write / append reads
back as exactly the records submitted (model-based, generated operation sequences)."""
import io
import os
import tempfile

import fastavro
from fastavro.write import Writer
from hypothesis import strategies as st

from .. import gen, concase
from ..ref import model as M
from ..ref import binary as B
from ..ref import container as RC
from ..runner import Check, Violation, guard, outcome, HarnessError

short = concase.short

REC = {"type": "record", "name": "ns.Row", "fields": [
    {"name": "a", "type": "long"}, {"name": "b", "type": "string"}, {"name": "c", "type": {"type": "array", "items": "int"}}]}
EMPTY = {"type": "record", "name": "Empty", "fields": []}
UNION = ["null", {"type": "record", "name": "U", "fields": [{"name": "x", "type": "int"}, {"name": "y", "type": ["null", "string"], "default": None}]}, "string"]
ARR = {"type": "array", "items": "string"}
MAP = {"type": "map", "values": "long"}
OTHER = {"type": "record", "name": "Different", "fields": [{"name": "zzz", "type": "double"}]}

FLT = {"type": "record", "name": "Flt", "fields": [{"name": "a", "type": "long"}, {"name": "s", "type": "string"}, {"name": "f", "type": "float"}, {"name": "m", "type": {"type": "map", "values": "int"}}]}

# nested named types, by-name references, a null-namespace type inside a namespace, a recursive type: appending re-parses the
# schema found in the header, so the header must carry all of it
NEST = {"type": "record", "name": "app.Outer", "fields": [
    {"name": "k", "type": {"type": "enum", "name": "Kind", "symbols": ["A", "B"]}},
    {"name": "inner", "type": {"type": "record", "name": "Inner", "namespace": "", "fields": [
        {"name": "f", "type": {"type": "fixed", "name": "other.F2", "size": 2}}, {"name": "again", "type": ["null", "app.Kind"]}]}},
    {"name": "more", "type": {"type": "array", "items": "other.F2"}},
    {"name": "next", "type": ["null", "Outer"], "default": None}]}

FAMILIES = {
    "nest": dict(
        schema=NEST,
        good=[{"k": "A", "inner": {"f": b"ab", "again": None}, "more": []}, {"k": "B", "inner": {"f": b"\x00\xff", "again": "A"}, "more": [b"zz", b"yy"],
                                                                           "next": {"k": "A", "inner": {"f": b"cd", "again": "B"}, "more": [b"11"], "next": None}}],
        bad=[{"k": "C", "inner": {"f": b"ab", "again": None}, "more": []},  # unknown symbol, first field
             {"k": "A", "inner": {"f": b"abc", "again": None}, "more": []},  # wrong fixed size after k was encoded
             {"k": "A", "inner": {"f": b"ab", "again": None}, "more": [b"ok", b"toolong"]},  # inside the array
             {"k": "B", "inner": {"f": b"ab", "again": "A"}, "more": [], "next": {"k": "A", "inner": {"f": b"ab"}, "more": 5}}],  # deep inside the recursion
    ),
    "flt": dict(
        schema=FLT,
        good=[{"a": 1, "s": "x", "f": 1.5, "m": {}}, {"a": -2, "s": "yy" * 40, "f": -0.0, "m": {"k": 1}}],
        bad=[{"a": 7, "s": "partial", "f": 1e39, "m": {}},  # OverflowError after a and s were encoded
             {"a": 7, "s": "partial", "f": 10**400, "m": {}},
             {"a": 7, "s": "partial", "f": 1.0, "m": [1, 2]},  # AttributeError: list has no items()
             {"a": 7, "s": "partial", "f": 1.0, "m": {"k": 2**70}}],
    ),
    "rec": dict(
        schema=REC,
        good=[{"a": 0, "b": "", "c": []}, {"a": -1, "b": "hello", "c": [1, 2, 3]}, {"a": 2**62, "b": "x" * 300, "c": list(range(100))}, {"a": 7, "b": "é", "c": [2**31 - 1]}],
        bad=[{"a": "x", "b": "s", "c": []},  # first field
             {"a": 3, "b": 5, "c": []},  # second field, after a was encoded
             {"a": 3, "b": "partial", "c": [1, 2, "x"]},  # deep inside the array
             {"a": 3, "b": "partial"},  # missing required last field
             {"a": 4, "b": "long" * 200, "c": None}],
    ),
    "empty": dict(schema=EMPTY, good=[{}, {}, {"ignored": 1}], bad=[5, 7.5, None]),
    "union": dict(
        schema=UNION,
        good=[None, "s", {"x": 1}, {"x": 2, "y": "t"}, "long" * 100],
        bad=[5.5, {"x": "notint"}, {"x": 1, "y": 5}, b"bytes", [1]],
    ),
    "arr": dict(schema=ARR, good=[[], ["a"], ["a", "b" * 200, ""]], bad=[["ok", 5], [None], 5, ["a" * 50, "b", b"c"]]),
    "map": dict(schema=MAP, good=[{}, {"k": 1}, {"a": -1, "b": 2**40, "": 0}], bad=[{"k": "v"}, {"a": 1, "b": None}, {"a": 1, 2: 2}, 5]),
}


def clash_variant(js):
    """A valid schema defining the same names differently: enum symbols reversed, fixed one byte longer, records with an
    extra defaulted field (definitions stay in place, so every by-name reference still follows its definition)."""
    if isinstance(js, list):
        return [clash_variant(b) for b in js]
    if isinstance(js, dict):
        out = {k: (clash_variant(v) if k in ("type", "items", "values") and not isinstance(v, str) else v) for k, v in js.items()}
        if js.get("type") == "enum":
            out["symbols"] = list(reversed(js["symbols"]))
        if js.get("type") == "fixed":
            out["size"] = js["size"] + 1
        if js.get("type") == "record":
            out["fields"] = [dict(f, type=clash_variant(f["type"])) for f in js["fields"]] + [{"name": "clash_extra", "type": "int", "default": 0}]
        return out
    return js


class C07(Check):
    pid = "C07"
    level = "exploration"
    rule = (
        "Model-based generated histories (Hypothesis composite: initial configuration + up to 40 operations): create "
        "Writer (schema family with small, large and zero-byte records; codec; sync_interval 1..10^4; marker; metadata; "
        "validator on/off; BytesIO or real w+b file); ops = write conforming record | write non-conforming record "
        "(failing at first field / after earlier fields were encoded / deep inside an array; must raise) | flush | "
        "write_block with a block taken from a donor file of any codec (donors from fastavro and from the independent "
        "writer, incl. empty blocks) | flush + reopen for append through Writer(...) or writer(...) with schema "
        "None/same/different, any codec, marker, metadata. Model = list of normalised records successfully submitted. "
        "After every flush: reader over a copy of the stream == model, the independent parser accepts the file and counts "
        "len(model) records, header bytes unchanged since creation. Non-trivial = history with a failed write followed by "
        "a successful one, write_block with pending records, append after an empty flush, or >=2 reopenings."
    )
    assumptions = ["a reopen is preceded by a flush (records never flushed before the writer is dropped are not 'submitted so far' at any flush)"]
    required_labels = ["failed-then-success", "write_block-with-pending", "reopens>=2", "append-after-empty-flush", "family:empty", "family:rec", "family:flt", "family:nest", "reopen:position-after-reader", "reopen:position-in-the-middle", "reopen:schema-redefining-the-same-names", "stream:file-by-descriptor", "stream:file", "validator:on", "validator:off", "auto-dump", "metadata-dict-reused", "block:iterated", "block:twice"]
    quick = (1200, 1)
    thorough = (1500, 16)

    def selftest(self):
        B.selftest()

    def extra_coverage(self):
        return {"codecs_usable": concase.usable_codecs(fastavro)}

    def strategy(self, tier):
        codecs = [c for c in concase.usable_codecs(fastavro) if c in concase.REF_CODECS]

        @st.composite
        def histories(draw):
            d = gen.D(draw)
            famname = d.choice(["rec", "flt", "empty", "union", "arr", "map", "nest", "nest", "rec"])
            fam = FAMILIES[famname]
            init = {
                "family": famname,
                "codec": d.choice(codecs),
                "sync_interval": d.choice([1, 2, 10, 50, 300, 2000, 10**4]),
                "marker": d.choice([None, b"\x05" * 16, bytes(range(16))]),
                "metadata": concase.gen_metadata(d),
                "validator": d.p(0.35),
                "stream": d.choice(["bytesio", "bytesio", "file"]),
                "by_descriptor": d.p(0.4),
                "parsed": d.p(0.3),
                "metadata_used_before": d.choice([None, None, None] + codecs),
            }
            # donors
            donors = []
            for _ in range(d.rng(0, 2)):
                recs = [d.choice(fam["good"]) for _ in range(d.rng(0, 5))]
                donors.append({"codec": d.choice(codecs), "records": recs, "interval": d.choice([1, 100, 10**4]), "by": d.choice(["fastavro", "ref"]), "empty_block": d.p(0.3)})
            ops = []
            n = d.rng(1, 40)
            for _ in range(n):
                w = d.weighted([("write", 10), ("bad", 5), ("flush", 5), ("block", 3 if donors else 0), ("reopen", 3), ("reopen_fn", 2)])
                if w == "write":
                    ops.append(["write", d.i(len(fam["good"]))])
                elif w == "bad":
                    ops.append(["bad", d.i(len(fam["bad"]))])
                elif w == "flush":
                    ops.append(["flush"])
                elif w == "block":
                    ops.append(["block", d.i(len(donors)), d.i(8), d.choice(["fresh", "fresh", "iterated", "twice", "peeked"])])
                else:
                    args = {
                        "schema": d.choice(["clash", "none", "same", "different"]),
                        "codec": d.choice(codecs),
                        "marker": d.choice([None, b"\x09" * 16]),
                        "metadata": d.choice([None, {"late": "meta"}]),
                        "validator": d.p(0.3),
                        "sync_interval": d.choice([1, 50, 10**4]),
                        "pos": d.choice(["after-reader", "middle", "end", "end", "end"]),
                    }
                    if w == "reopen":
                        ops.append(["reopen", args])
                    else:
                        ops.append(["reopen_fn", args, [d.i(len(fam["good"])) for _ in range(d.rng(0, 3))]])
            return {"init": init, "donors": donors, "ops": ops}

        return histories()

    def fixed_cases(self, tier):
        base = {"family": "rec", "codec": "null", "sync_interval": 10**4, "marker": b"\x05" * 16, "metadata": {}, "validator": False, "stream": "bytesio", "parsed": False}
        # failed write midway, then success, then flush
        yield {"init": dict(base), "donors": [], "ops": [["write", 1], ["bad", 1], ["write", 0], ["flush"]]}
        yield {"init": dict(base), "donors": [], "ops": [["bad", 2], ["flush"], ["write", 0], ["flush"]]}
        yield {"init": dict(base), "donors": [], "ops": [["write", 0], ["bad", 4], ["write", 0], ["flush"], ["bad", 4], ["bad", 1], ["write", 1], ["flush"]]}
        yield {"init": dict(base, codec="deflate", stream="file"), "donors": [], "ops": [["flush"], ["reopen", {"schema": "none", "codec": "null", "marker": None, "metadata": None, "validator": False, "sync_interval": 1}], ["write", 1], ["flush"],
                                                                                     ["reopen_fn", {"schema": "different", "codec": "xz", "marker": b"\x09" * 16, "metadata": {"late": "meta"}, "validator": True, "sync_interval": 50}, [0, 2]]]}
        yield {"init": dict(base, family="empty", sync_interval=1), "donors": [{"codec": "bzip2", "records": [{}, {}], "interval": 1, "by": "ref", "empty_block": True}],
               "ops": [["write", 0], ["block", 0, 0], ["block", 0, 1], ["write", 1], ["flush"]]}

    # ------------------------------------------------------------------ interpreter
    def _make_donor(self, donor, schema_js, node, table):
        recs = donor["records"]
        if donor["by"] == "fastavro":
            fo = io.BytesIO()
            fastavro.writer(fo, schema_js, recs, codec=donor["codec"], sync_interval=donor["interval"])
            return fo.getvalue()
        import json

        encs = [B.encode(node, table, r)[0] for r in recs]
        blocks = []
        if donor["interval"] == 1:
            blocks = [(1, e) for e in encs]
        elif recs:
            blocks = [(len(encs), b"".join(encs))]
        if donor.get("empty_block"):
            blocks.insert(len(blocks) // 2, (0, b""))
        meta = [([("avro.schema", json.dumps(schema_js).encode()), ("avro.codec", donor["codec"].encode())], False)]
        return RC.write(meta, b"D" * 16, blocks, donor["codec"])[0]

    def run_case(self, case):
        init = case["init"]
        fam = FAMILIES[init["family"]]
        js = fam["schema"]
        node, table = M.resolve(js)
        labels = {"family:" + init["family"], "stream:" + init["stream"], "codec:" + init["codec"], "validator:" + ("on" if init["validator"] else "off")}
        schema = guard("parse-valid-schema", fastavro.parse_schema, js) if init.get("parsed") else js
        norm = lambda r: B.encode(node, table, r)[1]
        donors = []
        for dn in case["donors"]:
            data = self._make_donor(dn, js, node, table)
            blks = guard("read-donor-blocks", lambda: list(fastavro.block_reader(io.BytesIO(data))))
            per_block = []
            i = 0
            for b in blks:
                per_block.append([norm(r) for r in dn["records"][i : i + b.num_records]])
                i += b.num_records
            donors.append((data, per_block))

        tmp = None
        if init["stream"] == "file":
            tmp = tempfile.TemporaryDirectory(prefix="vc07")
            path = os.path.join(tmp.name, "f.avro")
            fo = open(path, "w+b")
        else:
            fo = io.BytesIO()
        try:
            return self._interpret(case, init, fam, js, schema, node, table, norm, donors, fo, labels)
        finally:
            try:
                fo.close()
            except Exception:
                pass
            if tmp is not None:
                tmp.cleanup()

    def _contents(self, fo):
        if isinstance(fo, io.BytesIO):
            return fo.getvalue()
        fo.flush()
        pos = fo.tell()
        fo.seek(0)
        data = fo.read()
        fo.seek(pos)
        return data

    def _interpret(self, case, init, fam, js, schema, node, table, norm, donors, fo, labels):
        path_of_fd = fo.name if (not isinstance(fo, io.BytesIO) and isinstance(fo.name, str)) else None
        kw = dict(codec=init["codec"], sync_interval=init["sync_interval"], metadata=dict(init["metadata"]), validator=init["validator"])
        if init["marker"] is not None:
            kw["sync_marker"] = init["marker"]
        if init.get("metadata_used_before"):
            # the caller's metadata dict was already handed to another writer (other stream, other codec)
            labels.add("metadata-dict-reused")
            guard("write-container", fastavro.writer, io.BytesIO(), schema, [], codec=init["metadata_used_before"], metadata=kw["metadata"])
        w = guard("create-writer", Writer, fo, schema, **kw)
        model = []  # flushed or pending, in submission order
        header = None
        history = []
        pending = 0
        failed_since = False
        reopens = 0
        last_flush_empty = False
        submitted_since_flush = 0

        def check(after):
            nonlocal header
            # after a flush the stream itself must hold the records: a real file is read through an independent
            # handle WITHOUT flushing it ourselves
            if isinstance(fo, io.BytesIO):
                data = fo.getvalue()
            else:
                with open(fo.name if isinstance(fo.name, str) else path_of_fd, "rb") as other:
                    data = other.read()
            ctx = f"after {after}; history={history}; init={ {k: v for k, v in init.items() if k != 'metadata'} }"
            try:
                pf = RC.parse(data)
            except RC.ContainerError as e:
                raise Violation("history-file-malformed:" + e.kind, f"independent parser rejects the stream: {e}; {ctx}")
            if header is None:
                header = data[: pf["header_end"]]
            elif data[: len(header)] != header:
                raise Violation("header-changed", f"header bytes changed since creation; {ctx}")
            if pf["header_end"] != len(header):
                raise Violation("header-changed", f"header length changed; {ctx}")
            total = sum(b["count"] for b in pf["blocks"])
            got = guard("read-history-file", lambda: list(fastavro.reader(io.BytesIO(data))))
            if len(got) != len(model) or not all(B.same(g, e) for g, e in zip(got, model)):
                i = next((j for j, (g, e) in enumerate(zip(got, model)) if not B.same(g, e)), min(len(got), len(model)))
                raise Violation(
                    "history-readback-mismatch",
                    f"stream reads back {len(got)} records, {len(model)} were submitted; first difference at #{i}: "
                    f"got {short(got[i]) if i < len(got) else '<missing>'} expected {short(model[i]) if i < len(model) else '<nothing>'}; {ctx}",
                )
            if total != len(model):
                raise Violation("history-block-counts", f"blocks announce {total} records, model has {len(model)}; {ctx}")
            # every block is exactly its records: a failed write must not leave bytes behind, not even unread ones
            for bi, b in enumerate(pf["blocks"]):
                pos = 0
                try:
                    for _ in range(b["count"]):
                        _, pos = B.decode(node, table, b["data"], pos)
                except B.RefError as e:
                    raise Violation("history-block-undecodable", f"independent decoder fails inside block #{bi}: {e}; {ctx}")
                if pos != len(b["data"]):
                    raise Violation("history-block-stale-bytes", f"block #{bi} announces {b['count']} records which take {pos} bytes, but its payload has {len(b['data'])}: {b['data'][pos:pos + 24].hex()}...; {ctx}")

        for op in case["ops"]:
            kind = op[0]
            if kind == "write":
                rec = fam["good"][op[1]]
                history.append(f"write(good#{op[1]})")
                before = self._contents(fo)
                guard("write-conforming-record", w.write, rec)
                model.append(norm(rec))
                pending += 1
                submitted_since_flush += 1
                if failed_since:
                    labels.add("failed-then-success")
                if len(self._contents(fo)) != len(before):
                    labels.add("auto-dump")
                    pending = 0
            elif kind == "bad":
                rec = fam["bad"][op[1]]
                history.append(f"write(bad#{op[1]})")
                o = outcome(w.write, rec)
                if o[0] == "ok":
                    # the statement speaks about writes that FAIL; a non-conforming datum the encoder happens to
                    # accept is outside its domain (C10 covers acceptance): stop interpreting this history
                    labels.add("domain:bad-record-accepted")
                    return labels
                failed_since = True
            elif kind == "flush":
                history.append("flush")
                guard("flush", w.flush)
                last_flush_empty = submitted_since_flush == 0
                submitted_since_flush = 0
                pending = 0
                check("flush")
            elif kind == "block":
                ddata, per_block = donors[op[1]]
                # a Block is a one-shot iterator over its payload: take fresh Block objects for every copy
                blks = guard("read-donor-blocks", lambda: list(fastavro.block_reader(io.BytesIO(ddata))))
                if not blks:
                    continue
                bi = op[2] % len(blks)
                history.append(f"write_block(donor#{op[1]}.block#{bi})")
                if pending:
                    labels.add("write_block-with-pending")
                mode = op[3] if len(op) > 3 else "fresh"
                labels.add("block:" + mode)
                if mode == "iterated":
                    guard("iterate-block", lambda: list(blks[bi]))
                elif mode == "peeked" and blks[bi].num_records:
                    guard("iterate-block", lambda: next(iter(blks[bi])))
                guard("write_block", w.write_block, blks[bi])
                model.extend(per_block[bi])
                if mode == "twice":
                    guard("write_block", w.write_block, blks[bi])
                    model.extend(per_block[bi])
                pending = 0
                submitted_since_flush += 1
            elif kind in ("reopen", "reopen_fn"):
                args = op[1]
                guard("flush", w.flush)
                if submitted_since_flush == 0 and (last_flush_empty or not model):
                    labels.add("append-after-empty-flush")
                submitted_since_flush = 0
                pending = 0
                check("flush-before-reopen")
                # "clash": the same type names with other definitions (enum symbols reversed, other field order): the file's
                # own schema governs what is appended
                sch = {"none": None, "same": schema, "different": OTHER, "clash": clash_variant(js)}[args["schema"]]
                if args["schema"] == "clash":
                    labels.add("reopen:schema-redefining-the-same-names")
                kw = dict(codec=args["codec"], sync_interval=args["sync_interval"], validator=args["validator"])
                if args["metadata"] is not None:
                    kw["metadata"] = dict(args["metadata"])
                if args["marker"] is not None:
                    kw["sync_marker"] = args["marker"]
                pos = args.get("pos", "end")
                if not isinstance(fo, io.BytesIO):
                    path = fo.name if isinstance(fo.name, str) else path_of_fd
                    fo.close()
                    if init.get("by_descriptor"):
                        # a file object built from an OS descriptor (os.fdopen, tempfile): its .name is the descriptor number
                        labels.add("stream:file-by-descriptor")
                        fo = os.fdopen(os.open(path, os.O_RDWR | (os.O_APPEND if pos == "end" else 0)), "a+b" if pos == "end" else "r+b")
                    else:
                        fo = open(path, "a+b" if pos == "end" else "r+b")
                if pos == "end":
                    fo.seek(0, 2)
                elif pos == "after-reader":
                    # the caller looked at the file first (schema, metadata): the stream stands somewhere behind the header
                    fo.seek(0)
                    guard("read-history-file", lambda: fastavro.reader(fo).writer_schema)
                    labels.add("reopen:position-after-reader")
                else:
                    fo.seek(0)
                    fo.seek(max(1, len(self._contents(fo)) // 2))
                    labels.add("reopen:position-in-the-middle")
                reopens += 1
                if reopens >= 2:
                    labels.add("reopens>=2")
                if kind == "reopen":
                    history.append(f"reopen(schema={args['schema']},codec={args['codec']})")
                    w = guard("reopen-for-append", Writer, fo, sch, **kw)
                else:
                    recs = [fam["good"][i] for i in op[2]]
                    history.append(f"writer(append, schema={args['schema']}, codec={args['codec']}, {len(recs)} records)")
                    guard("append-through-writer-function", fastavro.writer, fo, sch, recs, **kw)
                    model.extend(norm(r) for r in recs)
                    if failed_since and recs:
                        labels.add("failed-then-success")
                    check("writer(append)")
                    last_flush_empty = not recs
                    # continue the history with a fresh appending Writer
                    if isinstance(fo, io.BytesIO):
                        fo.seek(0, 2)
                    w = guard("reopen-for-append", Writer, fo, None, **kw)
        guard("flush", w.flush)
        history.append("flush(final)")
        check("final flush")
        return labels

    def nontrivial(self, labels):
        return bool(labels & {"failed-then-success", "write_block-with-pending", "append-after-empty-flush", "reopens>=2"})


CHECK = C07()

"""C03 - decoder accepts every spec-valid encoding (any block layout), rejects
out-of-range indices and truncated input, on the read path and the skip path."""
import io

import fastavro
from hypothesis import strategies as st

from .. import gen, bincase
from ..ref import model as M
from ..ref import binary as B
from ..runner import Check, Violation, guard, outcome, HarnessError

WRAP = "vWrapQ"
SENTINEL = -7046029254386353131  # 10-byte varint


def wrap_schemas(js):
    w = {"type": "record", "name": WRAP, "fields": [{"name": "skipme", "type": js}, {"name": "sentinel", "type": "long"}]}
    r = {"type": "record", "name": WRAP, "fields": [{"name": "sentinel", "type": "long"}]}
    return w, r


def _varint(n):
    o = bytearray()
    B.enc_long(n, o)
    return bytes(o)


class C03(Check):
    pid = "C03"
    level = "exploration"
    rule = (
        "Hypothesis-generated (schema, datum, block layout): the independent encoder splits every array/map into 1-4 "
        "blocks, each in positive-count or negative-count+byte-size form. fastavro must decode it to the reference "
        "decoder's value consuming all bytes, both directly and as a skipped field followed by a sentinel. Then, per "
        "case, EVERY union/enum index position is overwritten with each of {-1,-n,-n-1,n,n+1,2^31,-2^62} and EVERY "
        "proper prefix (all when <=400 bytes, else 400 spread + boundary offsets) is fed to both paths: each must raise. "
        "Non-trivial = a collection in >=2 blocks or a negative-count block, or >=1 index mutation. Distinct by digest."
    )
    assumptions = [
        "Avro encodings under a fixed schema are prefix-free, so every proper prefix is incomplete",
        "for malformed input other than bad indices / short input (invalid UTF-8, negative lengths) nothing is asserted",
    ]
    required_labels = ["multi-block", "neg-block", "index-mutation:u", "index-mutation:e", "prefixes", "skip-path", "s:recursive"]
    quick = (700, 1)
    thorough = (5000, 16)

    def __init__(self):
        self.feat = gen.Features(hints=0.0, big=False)

    def selftest(self):
        B.selftest()

    def strategy(self, tier):
        feat = self.feat

        @st.composite
        def cases(draw):
            d = gen.D(draw)
            ir, table, js = gen.build_schema(d, feat)
            gen.check_truth(ir, table, js)
            dg = gen.DataGen(d, feat, table)
            datum = dg.gen(ir, 6)
            marks = []
            stats = {}
            enc, norm = B.encode(ir, table, datum, layout=gen.layout_strategy(d, stats=stats), marks=marks)
            return {"schema": js, "enc": enc, "marks": [list(m) for m in marks], "parsed": d.p(0.3), "layout": stats}

        return cases()

    def fixed_cases(self, tier):
        # negative / too-large indices at top level
        yield {"schema": ["null", "int"], "enc": b"\x02\x02", "marks": [["u", 0, 1, 2]], "parsed": False}
        yield {"schema": {"type": "enum", "name": "E", "symbols": ["a", "b", "c"]}, "enc": b"\x04", "marks": [["e", 0, 2, 3]], "parsed": False}
        # the specification's own multi-block example shapes
        yield {"schema": {"type": "array", "items": "long"}, "enc": bytes.fromhex("03040204" "06" "06080a" "00"), "marks": [], "parsed": False}
        yield {"schema": {"type": "map", "values": "string"}, "enc": bytes.fromhex("01" "08" "0261" "0278" "02" "0262" "00" "00"), "marks": [], "parsed": True}
        yield {"schema": {"type": "array", "items": "null"}, "enc": bytes.fromhex("02" "05" "00" "00"), "marks": [], "parsed": False}

    def _read(self, schema, data):
        fo = io.BytesIO(data)
        v = fastavro.schemaless_reader(fo, schema)
        return v, fo.tell()

    def _skip(self, w, r, data):
        fo = io.BytesIO(data)
        v = fastavro.schemaless_reader(fo, w, r)
        return v, fo.tell()

    def run_case(self, case):
        js = case["schema"]
        node, table = M.resolve(js)
        enc = bytes(case["enc"])
        labels = gen.schema_labels(node, table)
        try:
            expect, pos = B.decode(node, table, enc)
        except B.RefError as e:
            raise HarnessError(f"case encoding is not valid for the reference decoder: {e}")
        if pos != len(enc):
            raise HarnessError("reference decoder did not consume the case encoding")
        schema = bincase.fa_schema(fastavro, case)
        w, r = wrap_schemas(js)
        if case.get("parsed"):
            w = guard("parse-valid-schema", fastavro.parse_schema, w)
            r = guard("parse-valid-schema", fastavro.parse_schema, r)
        tail = _varint(SENTINEL)

        # ---- positive: read path
        got, p = guard("decode-valid-encoding", self._read, schema, enc)
        if p != len(enc):
            raise Violation("decode-position", f"reader consumed {p} of {len(enc)} bytes; schema={js!r} enc={enc[:80].hex()}")
        if not B.same(got, expect):
            raise Violation("decode-mismatch", f"fastavro {got!r:.200} reference {expect!r:.200}; schema={js!r} enc={enc[:80].hex()}")
        # ---- positive: skip path
        got, p = guard("skip-valid-encoding", self._skip, w, r, enc + tail)
        labels.add("skip-path")
        if got != {"sentinel": SENTINEL} or p != len(enc) + len(tail):
            raise Violation("skip-mismatch", f"after skipping the value got {got!r:.100} at {p}/{len(enc)+len(tail)}; schema={js!r} enc={enc[:80].hex()}")
        # layout labels (recorded by the generator; fixed cases are labelled by re-encoding)
        lay = case.get("layout")
        if lay is None:
            self._layout_labels(node, table, enc, labels)
        else:
            if lay.get("max_blocks", 0) >= 2:
                labels.add("multi-block")
            if lay.get("neg", 0) >= 1:
                labels.add("neg-block")

        # ---- negative: out-of-range indices at every index position
        for t, off, idx, lim in case["marks"]:
            old = len(_varint(idx))
            for new in (-1, -lim, -lim - 1, lim, lim + 1, 2**31, -(2**62)):
                mutated = enc[:off] + _varint(new) + enc[off + old :]
                labels.add("index-mutation:" + t)
                o = outcome(self._read, schema, mutated)
                if o[0] == "ok":
                    raise Violation(
                        "bad-index-accepted:read:" + ("negative" if new < 0 else "high") + ":" + t,
                        f"{'union' if t=='u' else 'enum'} index {new} (valid 0..{lim-1}) at offset {off} returned {o[1][0]!r:.120}; schema={js!r} enc={mutated[:80].hex()}",
                    )
                o = outcome(self._skip, w, r, mutated + tail)
                if o[0] == "ok":
                    raise Violation(
                        "bad-index-accepted:skip:" + ("negative" if new < 0 else "high") + ":" + t,
                        f"{'union' if t=='u' else 'enum'} index {new} (valid 0..{lim-1}) at offset {off} skipped silently, result {o[1][0]!r:.120}; schema={js!r} enc={mutated[:80].hex()}",
                    )
        # ---- negative: every proper prefix
        n = len(enc)
        if n <= 400:
            cuts = range(n)
        else:
            step = max(1, n // 400)
            cuts = sorted(set(range(0, n, step)) | {off for _, off, _, _ in case["marks"] if off < n} | {n - 1, n - 2, 1, 2})
        for k in cuts:
            labels.add("prefixes")
            o = outcome(self._read, schema, enc[:k])
            if o[0] == "ok":
                raise Violation("prefix-accepted:read", f"prefix of {k}/{n} bytes returned {o[1][0]!r:.120}; schema={js!r} enc={enc[:80].hex()}")
            # skip path: the value is cut short and nothing follows
            o = outcome(self._skip, w, r, enc[:k])
            if o[0] == "ok":
                raise Violation("prefix-accepted:skip", f"prefix of {k}/{n} bytes skipped and returned {o[1][0]!r:.120}; schema={js!r} enc={enc[:80].hex()}")
        return labels

    def _layout_labels(self, node, table, enc, labels):
        # re-encode canonically (single positive block): a different length/bytes means a non-default layout was used
        val, _ = B.decode(node, table, enc)
        trace = []
        B.decode(node, table, enc, 0, trace)
        canon, _ = B.encode(node, table, val, B.Picker(indices=trace))
        if canon != enc:
            labels.add("multi-block")  # some collection deviates from the writer's own single-block form
            # a negative count shows up as an odd zig-zag byte at a count position; cheap proxy: lengths differ by size fields
            if len(enc) > len(canon):
                labels.add("neg-block")

    def nontrivial(self, labels):
        return bool(labels & {"multi-block", "neg-block", "index-mutation:u", "index-mutation:e"})

    def predicates(self):
        return {}


CHECK = C03()

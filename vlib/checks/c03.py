"""C03 - decoder accepts every spec-valid encoding (any block layout), rejects
out-of-range indices and truncated input, on the read path and the skip path."""
import copy
import io
import os

import fastavro
from hypothesis import strategies as st

from .. import gen, bincase, env
from ..ref import model as M
from ..ref import binary as B
from ..runner import Check, Violation, guard, outcome, HarnessError

WRAP = "vWrapQ"
SENTINEL = -7046029254386353131  # 10-byte varint


def wrap_schemas(js, last=False):
    fields = [{"name": "skipme", "type": js}, {"name": "sentinel", "type": "long"}]
    if last:
        fields.reverse()  # the skipped value is the last thing on the stream: nothing after it can hit EOF for it
    w = {"type": "record", "name": WRAP, "fields": fields}
    r = {"type": "record", "name": WRAP, "fields": [{"name": "sentinel", "type": "long"}]}
    return w, r


def with_enum_defaults(js):
    """The schema with a default symbol on every enum definition (nothing else changes)."""
    if isinstance(js, list):
        return [with_enum_defaults(b) for b in js]
    if isinstance(js, dict):
        out = {k: (with_enum_defaults(v) if k in ("type", "items", "values") and not isinstance(v, str) else v) for k, v in js.items()}
        if js.get("type") == "enum":
            out["default"] = js["symbols"][0]
        if js.get("type") in ("record", "error"):
            out["fields"] = [dict(f, type=with_enum_defaults(f["type"])) for f in js["fields"]]
        return out
    return js


def _varint(n):
    o = bytearray()
    B.enc_long(n, o)
    return bytes(o)


class C03(Check):
    pid = "C03"
    level = "exploration"
    rule = (
        "Hypothesis-generated (schema, datum, block layout): the independent encoder splits every array/map into 1-4 "
        "blocks, each in positive-count or negative-count+byte-size form. fastavro must decode it to the reference "
        "decoder's value consuming all bytes, both directly and as a skipped field followed by a sentinel. Then, per "
        "case, EVERY union/enum index position is overwritten with each of {-1,-n,-n-1,n,n+1,2^31,-2^62} and EVERY "
        "proper prefix (all when <=400 bytes, else 400 spread + boundary offsets) is fed to both paths: each must raise. "
        "Non-trivial = a collection in >=2 blocks or a negative-count block, or >=1 index mutation. Distinct by digest."
    )
    assumptions = [
        "Avro encodings under a fixed schema are prefix-free, so every proper prefix is incomplete",
        "for malformed input other than bad indices / short input (invalid UTF-8, negative lengths) nothing is asserted",
    ]
    required_labels = ["multi-block", "neg-block", "index-mutation:u", "index-mutation:e", "prefixes", "skip-path", "s:recursive"]
    quick = (1200, 1)
    thorough = (5000, 16)

    def __init__(self):
        self.feat = gen.Features(hints=0.0, big=False)

    def selftest(self):
        B.selftest()

    def strategy(self, tier):
        feat = self.feat

        @st.composite
        def cases(draw):
            d = gen.D(draw)
            ir, table, js = gen.build_schema(d, feat)
            gen.check_truth(ir, table, js)
            dg = gen.DataGen(d, feat, table)
            datum = dg.gen(ir, 6)
            marks = []
            stats = {}
            enc, norm = B.encode(ir, table, datum, layout=gen.layout_strategy(d, stats=stats), marks=marks)
            return {"schema": js, "enc": enc, "marks": [list(m) for m in marks], "parsed": d.p(0.3), "layout": stats}

        return cases()

    def fixed_cases(self, tier):
        # negative / too-large indices at top level
        yield {"schema": ["null", "int"], "enc": b"\x02\x02", "marks": [["u", 0, 1, 2]], "parsed": False}
        yield {"schema": {"type": "enum", "name": "E", "symbols": ["a", "b", "c"]}, "enc": b"\x04", "marks": [["e", 0, 2, 3]], "parsed": False}
        # the specification's own multi-block example shapes
        yield {"schema": {"type": "array", "items": "long"}, "enc": bytes.fromhex("03040204" "06" "06080a" "00"), "marks": [], "parsed": False}
        yield {"schema": {"type": "map", "values": "string"}, "enc": bytes.fromhex("01" "08" "0261" "0278" "02" "0262" "00" "00"), "marks": [], "parsed": True}
        yield {"schema": {"type": "array", "items": "null"}, "enc": bytes.fromhex("02" "05" "00" "00"), "marks": [], "parsed": False}
        # block counts and byte sizes that need two-byte varints
        ab = {"type": "array", "items": "boolean"}
        yield {"schema": ab, "enc": _varint(130) + b"\x01" * 130 + b"\x00", "marks": [], "parsed": False}
        yield {"schema": ab, "enc": _varint(-130) + _varint(130) + b"\x01" * 130 + b"\x00", "marks": [], "parsed": True}
        yield {"schema": ab, "enc": _varint(64) + b"\x00" * 64 + _varint(-66) + _varint(66) + b"\x01" * 66 + b"\x00", "marks": [], "parsed": False}
        yield {"schema": {"type": "map", "values": "null"}, "enc": _varint(-70) + _varint(140) + b"".join(b"\x02" + bytes([48 + i]) for i in range(70)) + b"\x00", "marks": [], "parsed": False}
        yield {"schema": {"type": "array", "items": "string"}, "enc": _varint(-2) + _varint(2 * len(_varint(10000) + b"a" * 10000)) + (_varint(10000) + b"a" * 10000) * 2 + b"\x00", "marks": [], "parsed": False}

    def _read(self, schema, data):
        fo = io.BytesIO(data)
        v = fastavro.schemaless_reader(fo, schema)
        return v, fo.tell()

    def _skip(self, w, r, data):
        fo = io.BytesIO(data)
        v = fastavro.schemaless_reader(fo, w, r)
        return v, fo.tell()

    # ------------------------------------------------------------------ atheris supplement
    def supplement(self, tier, seed):
        """Coverage-guided byte-level differential fuzzing (vlib/fuzz_c03.py); crashing inputs come back as cases."""
        import glob
        import re
        import shutil
        import subprocess
        import sys
        import tempfile
        from ..fuzzschemas import SCHEMAS

        try:
            sys.path.insert(0, os.path.join(env.VERIF_ROOT, ".deps"))
            import atheris  # noqa: F401
        except Exception:
            return [], {"fuzz_executions": 0, "fuzz_note": "atheris not importable; byte-level supplement skipped"}
        procs, runs = (1, 6000) if tier == "quick" else (16, 150000)
        work = tempfile.mkdtemp(prefix="fz", dir=os.path.join(env.VERIF_ROOT, "scratch") if os.path.isdir(os.path.join(env.VERIF_ROOT, "scratch")) else None)
        try:
            corpus = os.path.join(work, "corpus")
            os.makedirs(corpus)
            # seed corpus: one small valid encoding per schema (the empty corpus is exercised by odd-numbered processes)
            for i, s in enumerate(SCHEMAS):
                node, table = M.resolve(s)
                for j, datum in enumerate(self._seed_data(node, table)):
                    try:
                        enc, _ = B.encode(node, table, datum)
                    except Exception:
                        continue
                    with open(os.path.join(corpus, f"s{i}_{j}"), "wb") as fo:
                        fo.write(bytes([i]) + enc)
            ps = []
            for p in range(procs):
                art = os.path.join(work, f"art{p}")
                os.makedirs(art)
                own = os.path.join(work, f"c{p}")
                os.makedirs(own)
                cmd = [sys.executable, os.path.join(env.VERIF_ROOT, "vlib", "fuzz_c03.py"), f"-runs={runs}", f"-seed={(seed * 1000 + p) % (2**31 - 1) + 1}",
                       "-rss_limit_mb=4096", "-max_len=256", "-timeout=60", f"-artifact_prefix={art}/", own] + ([corpus] if p % 2 == 0 else [])
                ps.append((p, art, subprocess.Popen(cmd, stdout=subprocess.PIPE, stderr=subprocess.STDOUT, text=True, cwd=env.VERIF_ROOT)))
            total = 0
            cases = []
            notes = []
            for p, art, proc in ps:
                out, _ = proc.communicate()
                m = re.findall(r"Done (\d+) runs", out)
                if m:
                    total += int(m[-1])
                else:
                    m2 = re.findall(r"#(\d+)\s", out)
                    total += int(m2[-1]) if m2 else 0
                for f in sorted(glob.glob(os.path.join(art, "*"))):
                    data = open(f, "rb").read()
                    kind = os.path.basename(f).split("-")[0]
                    if kind in ("crash",) and data:
                        cases.append({"kind": "fuzz", "schema_idx": data[0] % len(SCHEMAS), "bytes": data[1:]})
                    else:
                        notes.append(f"{kind}:{data[:12].hex()}")
            cov = {"fuzz_executions": total, "fuzz_processes": procs, "fuzz_crashing_inputs": len(cases)}
            if notes:
                cov["fuzz_non_crash_artifacts"] = notes[:5]
            return cases, cov
        finally:
            shutil.rmtree(work, ignore_errors=True)

    def _seed_data(self, node, table):
        k = M.deref(node, table)["k"]
        base = {"null": [None], "boolean": [True], "int": [1, -64], "long": [2**40], "float": [1.5], "double": [-2.5], "bytes": [b"ab"], "string": ["hi"]}
        if k in base:
            return base[k]
        from ..checks.c10 import C10
        g = C10()._good_record(node, table)
        return [g[0]] if g else []

    def _fuzz_case(self, case, labels):
        from ..fuzzschemas import SCHEMAS
        idx = case["schema_idx"]
        data = bytes(case["bytes"])
        js = SCHEMAS[idx]
        node, table = M.resolve(js)
        labels.add("fuzz-input")
        B.ITEM_BUDGET = [20000]
        try:
            want, pos = B.decode(node, table, data, 0)
            ref = ("ok", want, pos)
        except B.RefError as e:
            if "item budget" in str(e):
                return labels
            ref = ("err", e.kind)
        finally:
            B.ITEM_BUDGET = None
        if ref[0] == "err" and ref[1] not in ("index", "eof"):
            return labels
        o = outcome(self._read, fastavro.parse_schema(js), data)
        if ref[0] == "ok":
            if o[0] != "ok":
                raise Violation("fuzz:valid-encoding-rejected", f"reference decodes {ref[1]!r:.100} but fastavro raised {type(o[1]).__name__}; schema={js!r:.200} bytes={data.hex()[:80]}", exc=o[1])
            if not B.same(o[1][0], ref[1]) or o[1][1] != ref[2]:
                raise Violation("fuzz:decode-differs", f"fastavro {o[1][0]!r:.100} after {o[1][1]} bytes, reference {ref[1]!r:.100} after {ref[2]}; schema={js!r:.200} bytes={data.hex()[:80]}")
        elif ref[1] in ("index", "eof") and o[0] == "ok":
            raise Violation("fuzz:bad-input-accepted:" + ref[1], f"reference rejects ({ref[1]}) but fastavro returned {o[1][0]!r:.100}; schema={js!r:.200} bytes={data.hex()[:80]}")
        return labels

    def run_case(self, case):
        if case.get("kind") == "fuzz":
            return self._fuzz_case(case, set())
        js = case["schema"]
        node, table = M.resolve(js)
        enc = bytes(case["enc"])
        labels = gen.schema_labels(node, table)
        try:
            expect, pos = B.decode(node, table, enc)
        except B.RefError as e:
            raise HarnessError(f"case encoding is not valid for the reference decoder: {e}")
        if pos != len(enc):
            raise HarnessError("reference decoder did not consume the case encoding")
        schema = bincase.fa_schema(fastavro, case)
        w, r = wrap_schemas(js)
        wl, rl = wrap_schemas(js, last=True)
        if case.get("parsed"):
            w = guard("parse-valid-schema", fastavro.parse_schema, w)
            r = guard("parse-valid-schema", fastavro.parse_schema, r)
            wl = guard("parse-valid-schema", fastavro.parse_schema, wl)
            rl = guard("parse-valid-schema", fastavro.parse_schema, rl)
        tail = _varint(SENTINEL)

        # ---- positive: read path
        got, p = guard("decode-valid-encoding", self._read, schema, enc)
        if p != len(enc):
            raise Violation("decode-position", f"reader consumed {p} of {len(enc)} bytes; schema={js!r} enc={enc[:80].hex()}")
        if not B.same(got, expect):
            raise Violation("decode-mismatch", f"fastavro {got!r:.200} reference {expect!r:.200}; schema={js!r} enc={enc[:80].hex()}")
        # ---- positive: skip path
        got, p = guard("skip-valid-encoding", self._skip, w, r, enc + tail)
        labels.add("skip-path")
        if got != {"sentinel": SENTINEL} or p != len(enc) + len(tail):
            raise Violation("skip-mismatch", f"after skipping the value got {got!r:.100} at {p}/{len(enc)+len(tail)}; schema={js!r} enc={enc[:80].hex()}")
        got, p = guard("skip-valid-encoding", self._skip, wl, rl, tail + enc)
        if got != {"sentinel": SENTINEL} or p != len(enc) + len(tail):
            raise Violation("skip-mismatch:last", f"skipping the value as the last field got {got!r:.100} at {p}/{len(enc)+len(tail)}; schema={js!r} enc={enc[:80].hex()}")
        # ---- positive: read under a reader schema (the resolving item readers), value kept
        kw_ = {"type": "record", "name": WRAP, "fields": [{"name": "kept", "type": js}, {"name": "sentinel", "type": "long"}]}
        kr_ = {"type": "record", "name": WRAP, "doc": "same schema, not the same object", "fields": [{"name": "sentinel", "type": "long"}, {"name": "kept", "type": copy.deepcopy(js)}]}
        kr_dflt = {"type": "record", "name": WRAP, "doc": "enums with defaults", "fields": [{"name": "kept", "type": with_enum_defaults(copy.deepcopy(js))}, {"name": "sentinel", "type": "long"}]}
        got, p = guard("resolve-valid-encoding", self._skip, kw_, kr_, enc + tail)
        labels.add("resolve-path")
        if p != len(enc) + len(tail) or not isinstance(got, dict) or got.get("sentinel") != SENTINEL or not B.same(got.get("kept"), expect):
            raise Violation("resolve-mismatch", f"read under an equivalent reader schema gives {got!r:.200} at {p}/{len(enc)+len(tail)}, reference value {expect!r:.200}; schema={js!r} enc={enc[:80].hex()}")
        # layout labels (recorded by the generator; fixed cases are labelled by re-encoding)
        lay = case.get("layout")
        if lay is None:
            self._layout_labels(node, table, enc, labels)
        else:
            if lay.get("max_blocks", 0) >= 2:
                labels.add("multi-block")
            if lay.get("neg", 0) >= 1:
                labels.add("neg-block")

        # ---- negative: out-of-range indices at every index position
        for t, off, idx, lim in case["marks"]:
            old = len(_varint(idx))
            for new in (-1, -lim, -lim - 1, lim, lim + 1, 2**31, -(2**62)):
                mutated = enc[:off] + _varint(new) + enc[off + old :]
                labels.add("index-mutation:" + t)
                o = outcome(self._read, schema, mutated)
                if o[0] == "ok":
                    raise Violation(
                        "bad-index-accepted:read:" + ("negative" if new < 0 else "high") + ":" + t,
                        f"{'union' if t=='u' else 'enum'} index {new} (valid 0..{lim-1}) at offset {off} returned {o[1][0]!r:.120}; schema={js!r} enc={mutated[:80].hex()}",
                    )
                o2 = outcome(self._skip, wl, rl, tail + mutated)
                if o2[0] == "ok":
                    raise Violation(
                        "bad-index-accepted:skip-last:" + ("negative" if new < 0 else "high") + ":" + t,
                        f"{'union' if t=='u' else 'enum'} index {new} (valid 0..{lim-1}) at offset {off} skipped silently as last field; schema={js!r} enc={mutated[:80].hex()}",
                    )
                # the same under a resolving reader whose enums all declare a default (meant for symbols the reader does not
                # know, not for indices the writer's schema does not have)
                o3 = outcome(self._skip, kw_, kr_dflt, mutated + tail)
                labels.add("bad-index-under-reader-with-enum-defaults")
                if o3[0] == "ok":
                    raise Violation(
                        "bad-index-accepted:resolve:" + ("negative" if new < 0 else "high") + ":" + t,
                        f"{'union' if t=='u' else 'enum'} index {new} (valid 0..{lim-1}) at offset {off} read under an equivalent reader schema with enum defaults returned {o3[1][0]!r:.120}; schema={js!r} enc={mutated[:80].hex()}",
                    )
                o = outcome(self._skip, w, r, mutated + tail)
                if o[0] == "ok":
                    raise Violation(
                        "bad-index-accepted:skip:" + ("negative" if new < 0 else "high") + ":" + t,
                        f"{'union' if t=='u' else 'enum'} index {new} (valid 0..{lim-1}) at offset {off} skipped silently, result {o[1][0]!r:.120}; schema={js!r} enc={mutated[:80].hex()}",
                    )
        # ---- negative: every proper prefix
        n = len(enc)
        if n <= 400:
            cuts = range(n)
        else:
            step = max(1, n // 400)
            cuts = sorted(set(range(0, n, step)) | {off for _, off, _, _ in case["marks"] if off < n} | {n - 1, n - 2, 1, 2})
        for k in cuts:
            labels.add("prefixes")
            o = outcome(self._read, schema, enc[:k])
            if o[0] == "ok":
                raise Violation("prefix-accepted:read", f"prefix of {k}/{n} bytes returned {o[1][0]!r:.120}; schema={js!r} enc={enc[:80].hex()}")
            # skip path: the value is cut short and nothing follows
            o = outcome(self._skip, w, r, enc[:k])
            if o[0] == "ok":
                raise Violation("prefix-accepted:skip", f"prefix of {k}/{n} bytes skipped and returned {o[1][0]!r:.120}; schema={js!r} enc={enc[:80].hex()}")
            o = outcome(self._skip, wl, rl, tail + enc[:k])
            if o[0] == "ok":
                raise Violation("prefix-accepted:skip-last", f"value skipped as the last field: prefix of {k}/{n} bytes accepted, returned {o[1][0]!r:.120}; schema={js!r} enc={enc[:80].hex()}")
        return labels

    def _layout_labels(self, node, table, enc, labels):
        # re-encode canonically (single positive block): a different length/bytes means a non-default layout was used
        val, _ = B.decode(node, table, enc)
        trace = []
        B.decode(node, table, enc, 0, trace)
        canon, _ = B.encode(node, table, val, B.Picker(indices=trace))
        if canon != enc:
            labels.add("multi-block")  # some collection deviates from the writer's own single-block form
            # a negative count shows up as an odd zig-zag byte at a count position; cheap proxy: lengths differ by size fields
            if len(enc) > len(canon):
                labels.add("neg-block")

    def nontrivial(self, labels):
        return bool(labels & {"multi-block", "neg-block", "index-mutation:u", "index-mutation:e"})

    def predicates(self):
        return {}


CHECK = C03()

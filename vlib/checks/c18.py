"""C18 - concurrent operations on distinct streams behave as if run sequentially.

The harness owns the schedule: every operation runs in its own thread under sys.settrace; each 'line' event in
a fastavro frame (each bytecode in the modules that own module-level state) is a yield point at which a
deterministic scheduler hands over according to the schedule.  All other threads are parked on semaphores."""
import datetime as dt
import decimal
import io
import json
import os
import sys
import threading
import uuid

import fastavro
from hypothesis import strategies as st

from .. import gen, tagged, env
from ..ref import binary as B
from ..runner import Check, Violation, guard, outcome, HarnessError, FA_DIR

D = decimal.Decimal
UTC = dt.timezone.utc
MARK = b"\x18" * 16
OPCODE_FILES = ("_logical_readers_py.py", "_logical_writers_py.py")

RAW = {
    "dec_hi": {"type": "bytes", "logicalType": "decimal", "precision": 30, "scale": 2},
    "dec_lo": {"type": "bytes", "logicalType": "decimal", "precision": 5, "scale": 2},
    "fdec": {"type": "fixed", "name": "FD", "size": 8, "logicalType": "decimal", "precision": 12, "scale": 3},
    "rec": {"type": "record", "name": "ns.Rec", "fields": [
        {"name": "id", "type": "long"}, {"name": "name", "type": ["null", "string"], "default": None},
        {"name": "tags", "type": {"type": "array", "items": "string"}}, {"name": "m", "type": {"type": "map", "values": "int"}},
        {"name": "e", "type": {"type": "enum", "name": "E", "symbols": ["A", "B"]}}]},
    "logical": {"type": "record", "name": "L", "fields": [
        {"name": "d", "type": {"type": "int", "logicalType": "date"}},
        {"name": "ts", "type": {"type": "long", "logicalType": "timestamp-micros"}},
        {"name": "u", "type": {"type": "string", "logicalType": "uuid"}},
        {"name": "dec", "type": {"type": "bytes", "logicalType": "decimal", "precision": 20, "scale": 4}},
        {"name": "dec2", "type": {"type": "bytes", "logicalType": "decimal", "precision": 4, "scale": 1}}]},
    "union": ["null", {"type": "record", "name": "Dog", "fields": [{"name": "legs", "type": "int"}, {"name": "tricks", "type": "int", "default": 0}]},
              {"type": "record", "name": "Cat", "fields": [{"name": "legs", "type": "int"}, {"name": "lives", "type": "int", "default": 9}]}, "string"],
    "list": {"type": "record", "name": "LL", "fields": [{"name": "v", "type": "int"}, {"name": "next", "type": ["null", "LL"], "default": None}]},
}
DATA = {
    "dec_hi": [D("1234567890123456789012345678.90"), D("-9999999999999999999999999999.99")],
    "dec_lo": [D("123.45"), D("-0.01")],
    "fdec": [D("123456789.125"), D("-1.000")],
    "rec": [{"id": 1, "name": "x", "tags": ["a", "b"], "m": {"k": 1}, "e": "B"}, {"id": -(2**40), "tags": [], "m": {}, "e": "A"}],
    "logical": [{"d": dt.date(2020, 2, 29), "ts": dt.datetime(1969, 12, 31, 23, 59, 59, 5, tzinfo=UTC), "u": uuid.UUID(int=5), "dec": D("1234567890123456.7891"), "dec2": D("-12.5")}],
    "union": [{"legs": 4, "tricks": 2}, {"legs": 4, "lives": 3}, None, "s"],
    "list": [{"v": 1, "next": {"v": 2, "next": None}}],
}
RAW["flt"] = {"type": "record", "name": "Reading", "fields": [{"name": "reading", "type": "double"}, {"name": "ratio", "type": "float"}, {"name": "xs", "type": {"type": "array", "items": "double"}}]}
DATA["flt"] = [{"reading": 1234.5, "ratio": 0.25, "xs": [1.0, -2.5]}, {"reading": -0.001953125, "ratio": 96.0, "xs": [3.25]}]

RAW["colA"] = {"type": "record", "name": "pal.Palette", "fields": [{"name": "main", "type": {"type": "enum", "name": "Color", "symbols": ["RED", "GREEN", "BLUE"]}},
                                                               {"name": "others", "type": {"type": "array", "items": "Color"}}, {"name": "m", "type": {"type": "map", "values": "pal.Color"}}]}
RAW["colB"] = {"type": "record", "name": "pal.Palette", "fields": [{"name": "main", "type": {"type": "enum", "name": "Color", "symbols": ["CYAN", "MAGENTA", "YELLOW", "KEY"]}},
                                                               {"name": "others", "type": {"type": "array", "items": "Color"}}, {"name": "m", "type": {"type": "map", "values": "pal.Color"}}]}
DATA["colA"] = [{"main": "GREEN", "others": ["RED", "GREEN", "BLUE"], "m": {"k": "BLUE"}}]
DATA["colB"] = [{"main": "KEY", "others": ["CYAN", "MAGENTA", "YELLOW"], "m": {"k": "YELLOW"}}]
KINDS = ["swrite", "sread", "validate", "cwrite", "cread", "jwrite", "jread", "parse", "canon", "fingerprint", "sread_rs", "swrite_bad", "sread_short", "validate_raise", "sread_named", "cread_recname"]
FAILING = ("swrite_bad", "sread_short", "validate_raise")
BAD = {"dec_hi": "not a decimal", "dec_lo": 5.5, "fdec": b"x", "rec": {"id": "x", "tags": [], "m": {}, "e": "A"}, "logical": {"d": "nope", "ts": 1, "u": "u", "dec": D("1"), "dec2": D("1")},
       "union": 12.5, "list": {"v": 1, "next": {"v": "x"}}, "colA": {"main": "KEY", "others": [], "m": {}}, "colB": {"main": "RED", "others": [], "m": {}}, "flt": {"reading": "x", "ratio": 1.0, "xs": []}}
JSON_OK = {"rec", "union", "dec_lo", "dec_hi", "logical", "colA", "colB", "flt"}
_CHECK = None


def cold_job(ops, pres, first, switches):
    """Runs in a child forked from a pristine post-import process: the operations meet the library's lazily
    initialised state for the first time, under the given schedule."""
    chk = C18()
    fns = [chk._fn(op, pre) for op, pre in zip(ops, pres)]
    s = Scheduler(fns, first, switches)
    return s.run(), s.taken


class Scheduler:
    def __init__(self, fns, first, switches):
        self.fns = fns
        self.n = len(fns)
        self.sems = [threading.Semaphore(0) for _ in fns]
        self.done = [False] * self.n
        self.results = [None] * self.n
        self.steps = 0
        self.switches = set(switches)
        self.first = first
        self.taken = 0
        self.steps_of = [0] * self.n
        self.error = None

    def _next(self, tid):
        for j in range(1, self.n + 1):
            k = (tid + j) % self.n
            if not self.done[k] and k != tid:
                return k
        return None

    def _step(self, tid):
        self.steps += 1
        self.steps_of[tid] += 1
        if self.steps in self.switches:
            nxt = self._next(tid)
            if nxt is not None:
                self.taken += 1
                self.sems[nxt].release()
                if not self.sems[tid].acquire(timeout=30):
                    self.error = "scheduler timeout"

    def _tracer(self, tid):
        def local(frame, event, arg):
            if event == "line" or event == "opcode":
                self._step(tid)
            return local

        def glob(frame, event, arg):
            if event == "call":
                fn = frame.f_code.co_filename
                if fn.startswith(FA_DIR):
                    if fn.endswith(OPCODE_FILES):
                        frame.f_trace_opcodes = True
                    return local
            return None

        return glob

    def _thread(self, tid):
        if not self.sems[tid].acquire(timeout=30):
            self.error = "scheduler timeout at start"
            return
        sys.settrace(self._tracer(tid))
        try:
            self.results[tid] = ("ok", self.fns[tid]())
        except BaseException as e:  # noqa
            self.results[tid] = ("exc", type(e).__name__, str(e)[:120])
        finally:
            sys.settrace(None)
            self.done[tid] = True
            nxt = self._next(tid)
            if nxt is not None:
                self.sems[nxt].release()

    def run(self):
        ts = [threading.Thread(target=self._thread, args=(i,), daemon=True) for i in range(self.n)]
        for t in ts:
            t.start()
        self.sems[self.first].release()
        for t in ts:
            t.join(timeout=60)
            if t.is_alive():
                raise HarnessError("scheduler: thread did not finish")
        if self.error:
            raise HarnessError(self.error)
        return self.results


class C18(Check):
    pid = "C18"
    level = "exploration"
    rule = (
        "Hypothesis draws 2-3 operations (schemaless/container/JSON write and read, validate, parse_schema, canonical form; "
        "with and without logical types) on distinct streams sharing parsed schema objects, from a family of schemas (decimals "
        "of different precision, records with logical types, unions, recursion) x data. Each operation first runs alone (its "
        "sequential result and its number of yield points). Then, under the harness-owned scheduler, EVERY schedule with one "
        "preemption is enumerated (for each starting thread, after each of its k yield points; all k when <= 160 (thorough: 500), "
        "otherwise the first and last 40 plus an even stride whose offset is drawn per case), a 7x7 grid of schedules with two "
        "preemptions, cold-start schedules in a fresh process, plus drawn schedules with up to 4 preemptions. "
        "Oracle: each thread's result (bytes / value / exception class) equals its sequential result. evaluations = operation "
        "tuples; coverage.schedules counts executed schedules. Non-trivial = a preemption was taken while another thread was "
        "inside a fastavro frame. Distinct by digest."
    )
    assumptions = [
        "granularity: source line (bytecode in _logical_readers_py/_logical_writers_py); atomicity of C-level dict/list/decimal operations is assumed",
        "at most 4 preemptions per schedule; free-running threads are not sampled because they decide nothing",
        "generate_* is excluded: it draws from the process-wide random module by design",
    ]
    required_labels = ["ops:2", "ops:3", "kind:sread", "kind:swrite", "kind:validate", "kind:parse", "kind:jwrite", "kind:cread", "logical", "shared-schema", "multi-preemption", "preempted-inside", "cold-start", "kind:fingerprint", "kind:sread_rs", "double-preemption", "failing-operation", "kind:sread_named", "kind:cread_recname"]
    quick = (6, 8)
    thorough = (120, 16)
    case_timeout_s = 3600  # one case = thousands of schedules, some in forked cold processes

    def __init__(self):
        self.schedules = 0
        self._parsed = None
        self._cold_server = None
        self._cold_owner = None

    def selftest(self):
        B.selftest()

    def extra_coverage(self):
        return {"schedules": self.schedules}

    def parsed(self):
        if self._parsed is None:
            self._parsed = {k: fastavro.parse_schema(v) for k, v in RAW.items()}
        return self._parsed

    def strategy(self, tier):
        @st.composite
        def cases(draw):
            d = gen.D(draw)
            n = 2 if d.p(0.8) else 3
            ops = []
            for j in range(n):
                sk = d.choice(list(RAW))
                kind = d.choice(KINDS)
                if j > 0 and d.p(0.5):
                    kind = ops[0]["kind"]  # the same code path in both threads is where shared state hurts
                    if d.p(0.5) and ops[0]["schema"] in ("colA", "colB"):
                        sk = "colB" if ops[0]["schema"] == "colA" else "colA"
                if kind in ("jwrite", "jread") and sk not in JSON_OK:
                    kind = "sread"
                ops.append({"kind": kind, "schema": sk, "datum": d.i(len(DATA[sk])), "form": d.choice(["parsed", "parsed", "raw"])})
            extra = []
            for _ in range(d.rng(0, 3)):
                extra.append(sorted(d.rng(1, 400) for _ in range(d.rng(2, 4))))
            return {"ops": ops, "multi": extra, "cold": d.p(0.15), "offset": d.rng(0, 63), "cap": 160 if tier == "quick" else 500}

        return cases()

    def fixed_cases_for_shard(self, tier, shard, nshards):
        # called at the very start of a shard, before this process has made any fastavro call: the fork server
        # created here is a pristine post-import image (needed by the cold-start schedules)
        from .c17 import ForkServer
        if self._cold_server is None or self._cold_owner != os.getpid():
            self._cold_server = ForkServer()
            self._cold_owner = os.getpid()
        return [c for i, c in enumerate(self.fixed_cases(tier)) if i % nshards == shard]

    def fixed_cases(self, tier):
        # the same entry point with different options in the two threads
        yield {"ops": [{"kind": "sread_named", "schema": "union", "datum": 0, "form": "parsed"}, {"kind": "sread", "schema": "union", "datum": 1, "form": "parsed"}], "multi": []}
        yield {"ops": [{"kind": "sread", "schema": "list", "datum": 0, "form": "parsed"}, {"kind": "sread_named", "schema": "list", "datum": 0, "form": "parsed"}], "multi": []}
        yield {"ops": [{"kind": "swrite", "schema": "flt", "datum": 0, "form": "parsed"}, {"kind": "swrite", "schema": "flt", "datum": 1, "form": "parsed"}], "multi": []}
        yield {"ops": [{"kind": "cwrite", "schema": "flt", "datum": 1, "form": "raw"}, {"kind": "sread", "schema": "flt", "datum": 0, "form": "parsed"}], "multi": []}
        yield {"ops": [{"kind": "sread_named", "schema": "list", "datum": 0, "form": "parsed"}, {"kind": "sread_named", "schema": "union", "datum": 0, "form": "parsed"}], "multi": []}
        yield {"ops": [{"kind": "cread_recname", "schema": "union", "datum": 1, "form": "parsed"}, {"kind": "cread_recname", "schema": "list", "datum": 0, "form": "parsed"}], "multi": []}
        yield {"ops": [{"kind": "swrite_bad", "schema": "rec", "datum": 0, "form": "parsed"}, {"kind": "swrite", "schema": "rec", "datum": 0, "form": "parsed"}], "multi": []}
        yield {"ops": [{"kind": "validate_raise", "schema": "union", "datum": 0, "form": "parsed"}, {"kind": "validate", "schema": "rec", "datum": 1, "form": "parsed"}], "multi": []}
        yield {"ops": [{"kind": "sread_short", "schema": "list", "datum": 0, "form": "parsed"}, {"kind": "sread", "schema": "list", "datum": 0, "form": "parsed"}], "multi": [[3, 30]]}
        yield {"ops": [{"kind": "sread", "schema": "dec_hi", "datum": 0, "form": "parsed"}, {"kind": "sread", "schema": "dec_lo", "datum": 0, "form": "parsed"}], "multi": []}
        yield {"ops": [{"kind": "sread", "schema": "logical", "datum": 0, "form": "parsed"}, {"kind": "sread", "schema": "logical", "datum": 0, "form": "parsed"}], "multi": [[5, 40, 80]]}
        yield {"ops": [{"kind": "swrite", "schema": "dec_hi", "datum": 0, "form": "parsed"}, {"kind": "swrite", "schema": "dec_lo", "datum": 0, "form": "parsed"}], "multi": []}
        yield {"ops": [{"kind": "cwrite", "schema": "rec", "datum": 0, "form": "parsed"}, {"kind": "cwrite", "schema": "union", "datum": 0, "form": "raw"}], "multi": []}
        yield {"ops": [{"kind": "validate", "schema": "dec_hi", "datum": 0, "form": "parsed"}, {"kind": "validate", "schema": "logical", "datum": 0, "form": "parsed"}], "multi": []}
        yield {"ops": [{"kind": "jwrite", "schema": "rec", "datum": 0, "form": "parsed"}, {"kind": "jwrite", "schema": "logical", "datum": 0, "form": "parsed"}], "multi": []}
        yield {"ops": [{"kind": "jread", "schema": "rec", "datum": 0, "form": "parsed"}, {"kind": "jread", "schema": "colA", "datum": 0, "form": "raw"}], "multi": []}
        yield {"ops": [{"kind": "cread", "schema": "colA", "datum": 0, "form": "parsed"}, {"kind": "cread", "schema": "colB", "datum": 0, "form": "parsed"}], "multi": []}
        yield {"ops": [{"kind": "sread", "schema": "colA", "datum": 0, "form": "raw"}, {"kind": "sread", "schema": "colB", "datum": 0, "form": "raw"}], "multi": []}
        yield {"ops": [{"kind": "fingerprint", "schema": "rec", "datum": 0, "form": "raw"}, {"kind": "fingerprint", "schema": "union", "datum": 0, "form": "raw"}], "multi": [], "cold": True}
        yield {"ops": [{"kind": "parse", "schema": "colA", "datum": 0, "form": "raw"}, {"kind": "canon", "schema": "colB", "datum": 0, "form": "raw"}], "multi": [], "cold": True}
        yield {"ops": [{"kind": "sread_rs", "schema": "rec", "datum": 0, "form": "parsed"}, {"kind": "sread_rs", "schema": "rec", "datum": 1, "form": "parsed"}], "multi": [], "cold": True}
        yield {"ops": [{"kind": "sread_rs", "schema": "logical", "datum": 0, "form": "parsed"}, {"kind": "cread", "schema": "logical", "datum": 0, "form": "parsed"}], "multi": [], "cold": True}

    # ------------------------------------------------------------------ operations
    def _prepare(self, op):
        """Inputs computed in the (warm) parent so that a cold child does not pre-warm anything."""
        sk = op["schema"]
        datum = DATA[sk][op["datum"]]
        fo = io.BytesIO()
        fastavro.schemaless_writer(fo, self.parsed()[sk], datum)
        cfo = io.BytesIO()
        fastavro.writer(cfo, self.parsed()[sk], [datum, datum], sync_marker=MARK)
        text = None
        if op["kind"] == "jread":
            so = io.StringIO()
            fastavro.json_writer(so, self.parsed()[sk], [datum])
            text = so.getvalue()
        return {"enc": fo.getvalue(), "cenc": cfo.getvalue(), "text": text, "canon": fastavro.schema.to_parsing_canonical_form(RAW[sk])}

    def _fn(self, op, pre=None):
        sk = op["schema"]
        if pre is None:
            pre = self._prepare(op)
        # one parsed object per schema key and process, shared by all threads (in a cold child it is freshly parsed)
        schema = self.parsed()[sk] if op["form"] == "parsed" else RAW[sk]
        datum = DATA[sk][op["datum"]]
        kind = op["kind"]
        enc, cenc, text = pre["enc"], pre["cenc"], pre["text"]

        def swrite():
            f = io.BytesIO()
            fastavro.schemaless_writer(f, schema, datum)
            return f.getvalue()

        def sread():
            return tagged.dumps(fastavro.schemaless_reader(io.BytesIO(enc), schema))

        def sread_rs():
            # schema resolution against a parsed reader schema object shared between the threads
            return tagged.dumps(fastavro.schemaless_reader(io.BytesIO(enc), RAW[sk], self.parsed()[sk]))

        # the rarely used result-shape options of the readers
        def sread_named():
            return tagged.dumps(fastavro.schemaless_reader(io.BytesIO(enc), schema, return_named_type=True, return_named_type_override=True))

        def cread_recname():
            return tagged.dumps(list(fastavro.reader(io.BytesIO(cenc), return_record_name=True, return_record_name_override=True)))

        def validate():
            return fastavro.validate(datum, schema, raise_errors=False)

        # operations that raise midway: their error paths run interleaved with the other thread's work
        def swrite_bad():
            f = io.BytesIO()
            fastavro.schemaless_writer(f, schema, BAD[sk])
            return f.getvalue()

        def sread_short():
            return tagged.dumps(fastavro.schemaless_reader(io.BytesIO(enc[:-1]), schema))

        def validate_raise():
            return fastavro.validate(BAD[sk], schema, raise_errors=True)

        def cwrite():
            f = io.BytesIO()
            fastavro.writer(f, schema, [datum, datum], sync_marker=MARK, codec="deflate")
            return f.getvalue()

        def cread():
            return tagged.dumps(list(fastavro.reader(io.BytesIO(cenc))))

        def jwrite():
            so = io.StringIO()
            fastavro.json_writer(so, schema, [datum, datum])
            return so.getvalue()

        def jread():
            return tagged.dumps(list(fastavro.json_reader(io.StringIO(text), schema)))

        def parse():
            return tagged.dumps({k: v for k, v in (fastavro.parse_schema(RAW[sk]) if isinstance(RAW[sk], dict) else {"u": fastavro.parse_schema(RAW[sk])}).items() if k != "__named_schemas"})

        def canon():
            return fastavro.schema.to_parsing_canonical_form(schema)

        def fingerprint():
            return fastavro.schema.fingerprint(pre["canon"], "CRC-64-AVRO")

        return {"sread_named": sread_named, "cread_recname": cread_recname, "swrite_bad": swrite_bad, "sread_short": sread_short, "validate_raise": validate_raise, "sread_rs": sread_rs, "fingerprint": fingerprint, "swrite": swrite, "sread": sread, "validate": validate, "cwrite": cwrite, "cread": cread, "jwrite": jwrite, "jread": jread, "parse": parse, "canon": canon}[kind]

    def run_case(self, case):
        ops = case["ops"]
        labels = {f"ops:{len(ops)}"}
        fns = []
        for op in ops:
            labels.add("kind:" + op["kind"])
            if op["kind"] in FAILING:
                labels.add("failing-operation")
            if op["schema"] in ("dec_hi", "dec_lo", "fdec", "logical"):
                labels.add("logical")
            fns.append(self._fn(op))
        if len({o["schema"] for o in ops if o["form"] == "parsed"}) < len([o for o in ops if o["form"] == "parsed"]):
            labels.add("shared-schema")
        # sequential results and step counts (each alone, under the same tracer)
        seq = []
        steps = []
        stateful_points = []
        for i, fn in enumerate(fns):
            # the first traced execution of a code object does not yet deliver opcode events (CPython enables them per
            # code object when f_trace_opcodes is first set), so the yield points are counted on a repeated run
            prev = None
            for _ in range(4):
                s = Scheduler([fn], 0, [])
                r = s.run()[0]
                if prev == s.steps:
                    break
                prev = s.steps
            seq.append(r)
            steps.append(s.steps)
        desc = [f"{o['kind']}({o['schema']}#{o['datum']},{o['form']})" for o in ops]

        def check(results, what):
            for i, (r, e) in enumerate(zip(results, seq)):
                if r != e:
                    raise Violation(
                        "interleaving-changes-result:" + ops[i]["kind"],
                        f"thread {i} {desc[i]} gives {repr(r)[:200]} under schedule {what}, sequentially {repr(e)[:200]}; threads={desc}",
                    )

        n = len(fns)
        for first in range(n):
            total = steps[first]
            ks = self._points(total, case.get("offset", 0) + first, case.get("cap", 160))
            for k in ks:
                s = Scheduler(fns, first, [k])
                res = s.run()
                self.schedules += 1
                if s.taken:
                    labels.add("preempted-inside")
                check(res, f"start={first} preempt-after={k}/{total}")
        # two preemptions on a grid: A runs k1 yield points, B runs k2, back to A (which finishes), then B finishes.
        # Needed for state that is balanced whenever the other thread runs to completion (a shared stack).
        g = 7
        for first in range(n):
            other = (first + 1) % n
            ka = sorted({max(1, (steps[first] * i) // (g + 1)) for i in range(1, g + 1)})
            kb = sorted({max(1, (steps[other] * i) // (g + 1)) for i in range(1, g + 1)})
            for k1 in ka:
                for k2 in kb:
                    s = Scheduler(fns, first, [k1, k1 + k2])
                    res = s.run()
                    self.schedules += 1
                    if s.taken >= 2:
                        labels.add("double-preemption")
                    check(res, f"start={first} preemptions-at={[k1, k1 + k2]}")
        if case.get("cold"):
            labels.add("cold-start")
            from .c17 import ForkServer
            if getattr(self, "_cold_server", None) is None or self._cold_owner != os.getpid():
                self._cold_server = ForkServer()
                self._cold_owner = os.getpid()
            pres = [self._prepare(op) for op in ops]
            for first in range(n):
                total = steps[first]
                # lazily initialised state is touched in a few lines somewhere inside the operation: fine-grained points
                pts = list(range(1, total)) if total <= 350 else sorted(set(range(1, total, max(1, total // 350))))
                for k in pts:
                    out = self._cold_server.call(("call", "vlib.checks.c18", "cold_job", (ops, pres, first, [k])))
                    if isinstance(out, tuple) and out and out[0] == "harness":
                        raise HarnessError(f"cold job: {out[1]}")
                    res, taken = out
                    self.schedules += 1
                    check(res, f"COLD process, start={first} preempt-after={k}/{total}")
        for sw in case.get("multi", []):
            labels.add("multi-preemption")
            for first in range(n):
                s = Scheduler(fns, first, sw)
                res = s.run()
                self.schedules += 1
                check(res, f"start={first} preemptions-at={sw}")
        return labels

    def _points(self, total, offset=0, cap=160):
        """All yield points when there are at most `cap`; otherwise the first and last 40 plus every (total // cap)-th one,
        starting at a per-case offset so that different cases of a run cover different residues."""
        if total <= cap:
            return list(range(1, total))
        step = max(1, total // cap)
        return sorted(set(range(1 + offset % step, total, step)) | set(range(1, min(total, 40))) | set(range(max(1, total - 40), total)))

    def nontrivial(self, labels):
        return "preempted-inside" in labels


CHECK = C18()
_CHECK = CHECK

"""C06 - truncated or sync-corrupted files never yield records that were not written."""
import copy
import io

import fastavro
from hypothesis import strategies as st

from .. import gen, concase
from ..ref import model as M
from ..ref import binary as B
from ..ref import container as RC
from ..runner import Check, Violation, guard, outcome, HarnessError

short = concase.short


def drain(make_iter):
    """Collect what an iterator yields until it stops (returns 'end') or raises."""
    got = []
    try:
        it = make_iter()
        for x in it:
            got.append(x)
    except RecursionError as e:
        return got, e
    except Exception as e:  # noqa
        return got, e
    return got, None


class C06(Check):
    pid = "C06"
    level = "fault_enumeration"
    exhaustive = False
    rule = (
        "Hypothesis generates small container files (fastavro.writer, every probed codec, 0-7 records, intervals giving "
        "0-7 blocks, varied schemas); block boundaries come from the independent parser. For EVERY cut offset k in [0,len) "
        "(all offsets when the file is <=1500 bytes, else all offsets within 24 bytes of the header end and of each block "
        "boundary plus every 5th) reader and block_reader are drained: the yielded list must be an element-wise prefix of "
        "the written (normalised) records; a normal end is allowed only at a block boundary (where it is required, with "
        "exactly the complete blocks' records). For every block, each of the 16 sync bytes is altered (xor 0x01, xor 0xff) "
        "and the whole marker replaced: reading must raise and yield nothing beyond that block. Every proper prefix of "
        "every record's schemaless encoding must raise. evaluations = generated files; coverage.fault_points = number of "
        "truncated/corrupted reads. Non-trivial = file with >=2 blocks or a compressed codec."
    )
    assumptions = ["enumeration is exhaustive per generated file within the stated offset set, not over all files"]
    required_labels = ["schemaless-prefix:two-writer-fields-one-reader-field", "blocks>=2", "codec:deflate", "codec:bzip2", "codec:xz", "codec:null", "cut:boundary", "cut:in-header", "cut:in-payload", "cut:in-sync", "sync-altered", "schemaless-prefix", "schemaless-prefix-with-reader-schema", "block-count-2bytes"]
    quick = (300, 1)
    thorough = (1500, 16)
    case_timeout_s = 300  # a case enumerates up to 1500 cut offsets of one file

    def __init__(self):
        self.feat = gen.Features(big=False, max_depth=3, max_named=4, exotic_seqs=False)
        self.fault_points = 0

    def selftest(self):
        B.selftest()

    def extra_coverage(self):
        return {"fault_points": self.fault_points, "codecs_usable": concase.usable_codecs(fastavro)}

    def strategy(self, tier):
        codecs = [c for c in concase.usable_codecs(fastavro) if c in concase.REF_CODECS]
        feat = self.feat

        @st.composite
        def cases(draw):
            d = gen.D(draw)
            ir, table, js = gen.build_schema(d, feat)
            dg = gen.DataGen(d, feat, table)
            n = d.weighted([(0, 1), (1, 2), (2, 3), (3, 3), (5, 2), (7, 1), (70, 1)])
            if n == 70 and M.deref(ir, table)["k"] not in ("int", "long", "boolean", "null", "float", "double", "enum", "fixed"):
                n = 7
            records = [dg.gen(ir, 4) for _ in range(n)]
            sizes = concase.sizes_of(ir, table, records)
            return {
                "schema": js,
                "records": records,
                "codec": d.choice(codecs),
                "sync_interval": concase.gen_interval(d, sizes),
                "marker": d.choice([b"\x00" * 16, bytes(range(16)), b"\xff" * 16, b"\x02" * 16]),
                "parsed": d.p(0.3),
            }

        return cases()

    def fixed_cases(self, tier):
        # a block whose record count needs a two-byte varint (>= 64 records)
        for codec in ("null", "deflate"):
            yield {"schema": "int", "records": list(range(100)), "codec": codec, "sync_interval": 150, "marker": b"\x07" * 16, "parsed": False}
        yield {"schema": {"type": "record", "name": "R", "fields": [{"name": "a", "type": "string"}, {"name": "b", "type": "boolean"}]},
               "records": [{"a": "x" * i, "b": i % 2 == 0} for i in range(5)], "codec": "null", "sync_interval": 1, "marker": b"\x00" * 16, "parsed": False}
        big = {"type": "record", "name": "Big", "fields": [{"name": "id", "type": "int"}, {"name": "body", "type": "string"}]}
        yield {"schema": big, "records": [{"id": 1, "body": "x" * 70000}], "codec": "null", "sync_interval": 10**6, "marker": b"\x03" * 16, "parsed": False}
        yield {"schema": {"type": "record", "name": "BigB", "fields": [{"name": "body", "type": "bytes"}]}, "records": [{"body": b"\x01" * 66000}, {"body": b"\x02" * 3}], "codec": "deflate", "sync_interval": 10, "marker": b"\x04" * 16, "parsed": False}
        yield {"schema": "null", "records": [None] * 3, "codec": "null", "sync_interval": 1, "marker": b"\x01" * 16, "parsed": False}

    def run_case(self, case):
        js = case["schema"]
        node, table = M.resolve(js)
        labels = {"codec:" + case["codec"]}
        schema = guard("parse-valid-schema", fastavro.parse_schema, js) if case.get("parsed") else js
        fo = io.BytesIO()
        guard("write-container", fastavro.writer, fo, schema, case["records"], codec=case["codec"], sync_interval=case["sync_interval"], sync_marker=case["marker"])
        data = fo.getvalue()
        try:
            pf = RC.parse(data)
            exp = concase.expected_records(node, table, case["records"], pf)
        except (RC.ContainerError, B.RefError, B.NotConforming) as e:
            # layout problems are C05's concern; without boundaries this file cannot be used here
            labels.add("skipped:unparseable-by-reference")
            return labels
        blocks = pf["blocks"]
        if len(blocks) >= 2:
            labels.add("blocks>=2")
        if any(b["count"] >= 64 for b in blocks):
            labels.add("block-count-2bytes")
        boundaries = {pf["header_end"]: 0}
        acc = 0
        for b in blocks:
            acc += b["count"]
            boundaries[b["offset"] + b["size"]] = acc
        n = len(data)
        if n <= 1500:
            cuts = range(n)
        else:
            near = set()
            for bd in boundaries:
                near.update(range(max(0, bd - 24), min(n, bd + 24)))
            cuts = sorted(near | set(range(0, n, 5)))

        def records_via_reader(buf):
            return lambda: fastavro.reader(io.BytesIO(buf))

        def records_via_blocks(buf):
            def it():
                for blk in fastavro.block_reader(io.BytesIO(buf)):
                    for r in blk:
                        yield r
            return it

        # sanity on the intact file
        for name, mk in (("reader", records_via_reader), ("block_reader", records_via_blocks)):
            got, err = drain(mk(data))
            if err is not None or len(got) != len(exp) or not all(B.same(g, e) for g, e in zip(got, exp)):
                raise Violation("intact-file-misread:" + name, f"{name} on the intact file gave {short(got)} err={err!r}; expected {short(exp)}")

        for k in cuts:
            buf = data[:k]
            if k in boundaries:
                labels.add("cut:boundary")
            elif k < pf["header_end"]:
                labels.add("cut:in-header")
            else:
                blk = next(b for b in blocks if b["offset"] <= k < b["offset"] + b["size"])
                labels.add("cut:in-sync" if k >= blk["offset"] + blk["size"] - 16 else "cut:in-payload")
            for name, mk in (("reader", records_via_reader), ("block_reader", records_via_blocks)):
                self.fault_points += 1
                got, err = drain(mk(buf))
                ctx = f"{name}, file of {n} bytes cut at {k} (header ends {pf['header_end']}, blocks {[(b['offset'], b['size'], b['count']) for b in blocks]}), codec={case['codec']} schema={js!r:.200}"
                if len(got) > len(exp) or not all(B.same(g, e) for g, e in zip(got, exp)):
                    raise Violation("truncation-yields-unwritten:" + name, f"yielded {short(got)} which is not a prefix of the written {short(exp)}; {ctx}")
                if err is None:
                    if k not in boundaries:
                        raise Violation("truncation-ends-normally-off-boundary:" + name, f"iteration ended normally after {len(got)} records although the cut is not on a block boundary; {ctx}")
                    if len(got) != boundaries[k]:
                        raise Violation("truncation-at-boundary-wrong-count:" + name, f"{len(got)} records yielded, complete blocks hold {boundaries[k]}; {ctx}")
                else:
                    if k in boundaries:
                        raise Violation("truncation-at-boundary-raises:" + name, f"cut exactly on a block boundary raised {err!r:.200} after {len(got)} records; {ctx}")

        # sync alterations
        acc = 0
        for bi, b in enumerate(blocks):
            s0 = b["offset"] + b["size"] - 16
            upto = acc + b["count"]
            variants = []
            for j in range(16):
                for mask in (0x01, 0xFF):
                    m = bytearray(data)
                    m[s0 + j] ^= mask
                    variants.append(bytes(m))
            m = bytearray(data)
            m[s0 : s0 + 16] = bytes((x + 1) % 256 for x in case["marker"])
            variants.append(bytes(m))
            for buf in variants:
                labels.add("sync-altered")
                for name, mk in (("reader", records_via_reader), ("block_reader", records_via_blocks)):
                    self.fault_points += 1
                    got, err = drain(mk(buf))
                    ctx = f"{name}, sync marker of block #{bi} altered, codec={case['codec']} schema={js!r:.200}"
                    if err is None:
                        raise Violation("sync-alteration-not-reported:" + name, f"no error; {len(got)} records yielded; {ctx}")
                    if len(got) > upto or not all(B.same(g, e) for g, e in zip(got, exp)):
                        raise Violation("sync-alteration-yields-later-records:" + name, f"yielded {len(got)} records {short(got)}; blocks up to the altered one hold {upto}; {ctx}")
            acc = upto

        # reader schemas that drop the trailing field(s): a skipped value must be consumed exactly, too
        droppers = []
        if isinstance(js, dict) and js.get("type") == "record" and js.get("fields"):
            for keep in sorted({0, len(js["fields"]) - 1, len(js["fields"]) // 2}):
                rs = dict(js)
                rs["fields"] = js["fields"][:keep]
                droppers.append(rs)
        # a reader field that two writer fields resolve to (by name and by alias): both values are on the stream and both must be
        # consumed.  The value is written twice under a wrapper; the second use refers to the type by name when it is a named type.
        twice = None
        if not table:
            twice = (copy.deepcopy(js), copy.deepcopy(js))
        elif isinstance(js, dict) and js.get("type") in ("record", "enum", "fixed") and node["k"] in ("record", "enum", "fixed"):
            twice = (copy.deepcopy(js), node["name"])
        if twice is not None:
            w2 = {"type": "record", "name": "verif.Twice", "fields": [{"name": "first", "type": twice[0]}, {"name": "second", "type": twice[1]}]}
            r2 = {"type": "record", "name": "verif.Twice", "fields": [{"name": "first", "type": copy.deepcopy(twice[0]), "aliases": ["second"]}]}
        # schemaless prefixes of each record
        for r, e in zip(case["records"][:4], exp):
            fo = io.BytesIO()
            guard("write-conforming", fastavro.schemaless_writer, fo, schema, r)
            enc = fo.getvalue()
            if twice is not None and enc:
                both = enc + enc
                o = outcome(fastavro.schemaless_reader, io.BytesIO(both), w2, r2)
                if o[0] == "ok":
                    labels.add("schemaless-prefix:two-writer-fields-one-reader-field")
                    for k in range(len(both)) if len(both) <= 200 else list(range(0, len(both), 11)) + [len(both) - 1]:
                        self.fault_points += 1
                        o = outcome(fastavro.schemaless_reader, io.BytesIO(both[:k]), w2, r2)
                        if o[0] == "ok":
                            raise Violation("schemaless-prefix-accepted:alias-and-name", f"prefix {k}/{len(both)} of a record whose two fields resolve to one reader field (name and alias) decoded to {short(o[1])}; field type={js!r:.200}")
            for k in range(len(enc)) if len(enc) <= 300 else list(range(0, len(enc), 7)) + [len(enc) - 1]:
                self.fault_points += 1
                labels.add("schemaless-prefix")
                o = outcome(fastavro.schemaless_reader, io.BytesIO(enc[:k]), schema)
                if o[0] == "ok":
                    raise Violation("schemaless-prefix-accepted", f"prefix {k}/{len(enc)} of {enc[:60].hex()} decoded to {short(o[1])}; schema={js!r:.200}")
                # the lenient text decoding modes read the same bytes: a short input is short in every mode
                for mode in ("replace", "ignore"):
                    self.fault_points += 1
                    labels.add("schemaless-prefix:handle_unicode_errors")
                    o = outcome(fastavro.schemaless_reader, io.BytesIO(enc[:k]), schema, handle_unicode_errors=mode)
                    if o[0] == "ok":
                        raise Violation("schemaless-prefix-accepted:" + mode, f"prefix {k}/{len(enc)} of {enc[:60].hex()} with handle_unicode_errors={mode!r} decoded to {short(o[1])}; schema={js!r:.200}")
                for rs in droppers:
                    self.fault_points += 1
                    labels.add("schemaless-prefix-with-reader-schema")
                    o = outcome(fastavro.schemaless_reader, io.BytesIO(enc[:k]), js, rs)
                    if o[0] == "ok":
                        raise Violation("schemaless-prefix-accepted:reader-schema", f"prefix {k}/{len(enc)} of {enc[:60].hex()} read with a reader schema keeping {len(rs['fields'])} field(s) decoded to {short(o[1])}; schema={js!r:.200}")
        return labels

    def nontrivial(self, labels):
        return bool("blocks>=2" in labels or labels & {"codec:deflate", "codec:bzip2", "codec:xz"})


CHECK = C06()

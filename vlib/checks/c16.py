"""C16 - logical types use the spec's representation and round-trip over their whole domain."""
import datetime as dt
import decimal
import io
import math
import uuid

import fastavro
from hypothesis import strategies as st

from .. import gen
from ..ref import binary as B
from ..ref import logical as RL
from ..ref import container as RC
from fastavro.validation import validate
from ..runner import Check, Violation, guard, outcome, HarnessError

UTC = dt.timezone.utc
D = decimal.Decimal
BIG = decimal.Context(prec=400)

SCHEMAS = {
    "date": {"type": "int", "logicalType": "date"},
    "time-millis": {"type": "int", "logicalType": "time-millis"},
    "time-micros": {"type": "long", "logicalType": "time-micros"},
    "timestamp-millis": {"type": "long", "logicalType": "timestamp-millis"},
    "timestamp-micros": {"type": "long", "logicalType": "timestamp-micros"},
    "local-timestamp-millis": {"type": "long", "logicalType": "local-timestamp-millis"},
    "local-timestamp-micros": {"type": "long", "logicalType": "local-timestamp-micros"},
    "uuid": {"type": "string", "logicalType": "uuid"},
}
PARSED = {}
MAX_ORD = dt.date.max.toordinal()
DT_MIN, DT_MAX = dt.datetime.min, dt.datetime.max


def parsed(name):
    if name not in PARSED:
        PARSED[name] = fastavro.parse_schema(SCHEMAS[name])
    return PARSED[name]


def varint(n):
    o = bytearray()
    B.enc_long(n, o)
    return bytes(o)


def trunc_expected(lt, v):
    """Value a reader must return: truncated to the type's precision, timestamps in UTC."""
    if lt == "date":
        return v
    if lt == "time-millis":
        return v.replace(microsecond=v.microsecond // 1000 * 1000)
    if lt == "time-micros":
        return v
    if lt in ("timestamp-millis", "timestamp-micros"):
        if v.tzinfo is None:
            u = v.replace(tzinfo=UTC)
        else:
            u = v.astimezone(UTC)
        if lt.endswith("millis"):
            u = u.replace(microsecond=u.microsecond // 1000 * 1000)
        return u
    if lt in ("local-timestamp-millis", "local-timestamp-micros"):
        if lt.endswith("millis"):
            return v.replace(microsecond=v.microsecond // 1000 * 1000)
        return v
    if lt == "uuid":
        return v
    raise AssertionError(lt)


def node_for(lt):
    s = SCHEMAS[lt]
    return {"k": s["type"], "logical": {"type": lt}}


class C16(Check):
    pid = "C16"
    level = "exploration"
    rule = (
        "Two kinds of cases. Enumerated chunks (each chunk = one evaluation; coverage.enumerated_values counts values): "
        "every date 0001-01-01..9999-12-31 (thorough: all 3,652,059; quick: every month boundary +-1 day and a stride), "
        "every millisecond of the day (thorough: all 86.4M; quick: every second boundary +-1 ms and a stride), time-micros "
        "at every second boundary +-1 us plus every microsecond of drawn seconds. Generated (Hypothesis): aware datetimes over "
        "the whole range with offsets up to +-23:59:59.999999 whose UTC instant is representable, naive datetimes for the "
        "local variants and (TZ=UTC) for the timestamp types, around the epoch and the range ends; UUIDs; decimals for drawn "
        "(precision, scale, fixed size | bytes) in every sign/exponent shape incl. -0, positive exponents, one digit / one "
        "fractional digit / one byte too many. Oracle: bytes == independent encoding of the specification's representation "
        "(days / units since midnight / floor units since the UTC epoch / canonical UUID string / big-endian two's-complement "
        "unscaled integer, exactly `size` bytes for fixed); read-back == value truncated to the type's precision, in UTC; "
        "decimals: not exactly representable => must raise; if written, the number decoded independently from the bytes must "
        "equal the decimal. Non-trivial: every case except the empty chunk; distinct by digest."
    )
    assumptions = [
        "TZ=UTC for naive datetimes under timestamp types",
        "aware datetimes whose UTC instant lies outside datetime.min..max have no 'returned in UTC' result and are not generated",
        "time-micros and timestamps are sampled, not enumerated",
        "a decimal written with more digits than the precision only because of trailing zeros (1.2300 for precision 3) may be refused or stored; both are accepted",
    ]
    required_labels = ["enum:date", "enum:time-millis", "enum:time-micros", "gen:timestamp-aware", "gen:timestamp-naive", "gen:local-timestamp", "gen:uuid",
                       "dec:fixed", "dec:bytes", "dec:must-raise", "dec:negative", "dec:negative-zero", "dec:positive-exponent", "dec:roundtrip", "pre-epoch", "offset:nonzero", "wrapped:record", "wrapped:array", "wrapped:union", "wrapped:map", "dec:sign-extended-read", "paths:container+validate+json", "dec:scale-omitted"]
    quick = (2500, 4)
    thorough = (20000, 16)
    exhaustive = False

    def __init__(self):
        self.enumerated = 0

    def selftest(self):
        B.selftest()
        assert RL.to_raw(node_for("date"), dt.date(1970, 1, 1)) == 0
        assert RL.to_raw(node_for("date"), dt.date(1969, 12, 31)) == -1
        assert RL.to_raw(node_for("timestamp-millis"), dt.datetime(1969, 12, 31, 23, 59, 59, 999000, tzinfo=UTC)) == -1
        assert RL.to_raw(node_for("timestamp-millis"), dt.datetime(1969, 12, 31, 23, 59, 59, 999999, tzinfo=UTC)) == -1
        assert RL.to_raw(node_for("timestamp-micros"), dt.datetime(1970, 1, 1, 1, tzinfo=dt.timezone(dt.timedelta(hours=1)))) == 0
        assert RL.to_raw(node_for("time-micros"), dt.time(23, 59, 59, 999999)) == 86399999999

    def extra_coverage(self):
        out = {"enumerated_values": self.enumerated}
        if getattr(self, "_tier", None) == "thorough":
            out["exhaustive_subdomains"] = ["date: every day 0001-01-01..9999-12-31 (3652059 values)", "time-millis: every millisecond of the day (86400000 values)"]
        else:
            out["exhaustive_subdomains"] = []
        return out

    # ------------------------------------------------------------------ enumerated chunks
    def _chunks(self, tier):
        out = []
        if tier == "thorough":
            step = 20000
            for lo in range(1, MAX_ORD + 1, step):
                out.append({"kind": "enum", "lt": "date", "lo": lo, "hi": min(MAX_ORD, lo + step - 1), "stride": 1})
            step = 200000
            for lo in range(0, 86400000, step):
                out.append({"kind": "enum", "lt": "time-millis", "lo": lo, "hi": lo + step - 1, "stride": 1})
        else:
            for lo in range(1, MAX_ORD + 1, 400000):
                out.append({"kind": "enum", "lt": "date", "lo": lo, "hi": min(MAX_ORD, lo + 400000 - 1), "stride": 97})
            out.append({"kind": "enum-month-bounds"})
            for lo in range(0, 86400000, 10800000):
                out.append({"kind": "enum", "lt": "time-millis", "lo": lo, "hi": lo + 10800000 - 1, "stride": 1009})
            out.append({"kind": "enum-second-bounds", "lt": "time-millis"})
        out.append({"kind": "enum-second-bounds", "lt": "time-micros"})
        for sec in ([0, 1, 59, 3599, 3600, 43199, 43200, 86398, 86399] if tier == "quick" else list(range(0, 86400, 432))):
            out.append({"kind": "enum", "lt": "time-micros", "lo": sec * 10**6, "hi": sec * 10**6 + (9999 if tier == "quick" else 999999), "stride": 1})
        return out

    def fixed_cases_for_shard(self, tier, shard, nshards):
        self._tier = tier
        chunks = self._chunks(tier)
        mine = [c for i, c in enumerate(chunks) if i % nshards == shard]
        if shard == 0:
            mine += list(self.fixed_cases(tier))
        return mine

    def fixed_cases(self, tier):
        for prec, scale, size, vals in [
            (3, 0, 2, ["-0", "0", "-1E+5", "1E+2", "999", "-999", "1000", "-32768", "32767", "32768", "-32769"]),
            (5, 2, 4, ["-0.00", "0.00", "-0.01", "123.45", "-123.45", "1234.5", "1.234", "999.99", "-999.99"]),
            (2, 0, 1, ["2E2", "127", "128", "-128", "-129", "99"]),
            (18, 0, 8, ["93E17", "1E19", "-1E19", "999999999999999999"]),
        ]:
            for v in vals:
                yield {"kind": "decimal", "under": "fixed", "precision": prec, "scale": scale, "size": size, "value": D(v)}
                yield {"kind": "decimal", "under": "bytes", "precision": prec, "scale": scale, "size": None, "value": D(v)}
        yield {"kind": "value", "lt": "timestamp-micros", "value": dt.datetime(1, 1, 1, 0, 0, 0, 0, tzinfo=UTC)}
        yield {"kind": "value", "lt": "timestamp-micros", "value": dt.datetime(9999, 12, 31, 23, 59, 59, 999999, tzinfo=UTC)}
        yield {"kind": "value", "lt": "timestamp-millis", "value": dt.datetime(1969, 12, 31, 23, 59, 59, 999999, tzinfo=UTC)}

    # ------------------------------------------------------------------ generated
    def strategy(self, tier):
        @st.composite
        def cases(draw):
            d = gen.D(draw)
            w = d.i(10)
            if w < 4:
                c = self._gen_timestamp(d, draw)
                c["wrap"] = d.choice([None, None, "record", "array", "union", "map"])
                return c
            if w < 5:
                return {"kind": "value", "lt": "uuid", "value": draw(st.uuids()) if d.p(0.8) else uuid.UUID(int=d.choice([0, 1, 2**128 - 1, 2**64])), "wrap": d.choice([None, "record", "array", "union", "map"])}
            if w < 6:
                lt = d.choice(["time-millis", "time-micros"])
                t = dt.time(d.rng(0, 23), d.rng(0, 59), d.rng(0, 59), d.choice([0, 1, 999, 1000, 999999, 999000, 500, 123456]) if d.p(0.6) else d.rng(0, 999999))
                return {"kind": "value", "lt": lt, "value": t, "wrap": d.choice([None, "record", "array", "union", "map"])}
            return self._gen_decimal(d, draw)

        return cases()

    def _gen_timestamp(self, d, draw):
        lt = d.choice(["timestamp-millis", "timestamp-micros", "local-timestamp-millis", "local-timestamp-micros"])
        w = d.i(10)
        if w < 3:
            base = dt.datetime(1970, 1, 1) + dt.timedelta(microseconds=d.choice([0, 1, -1, 999, 1000, -999, -1000, -1001, 10**6, -(10**6), 86400 * 10**6, -86400 * 10**6 - 1]))
        elif w < 5:
            base = d.choice([DT_MIN, DT_MIN + dt.timedelta(microseconds=1), DT_MAX, DT_MAX - dt.timedelta(microseconds=999), dt.datetime(1900, 1, 1), dt.datetime(2038, 1, 19, 3, 14, 7, 999999), dt.datetime(1582, 10, 15)])
        else:
            base = draw(st.datetimes(min_value=DT_MIN, max_value=DT_MAX))
        if lt.startswith("local") or d.p(0.25):
            return {"kind": "value", "lt": lt, "value": base}  # naive
        # aware: `base` is the UTC instant; attach an offset such that the local time is representable too
        off = d.choice([0, 3600, -3600, 19800, -34200, 86399, -86399, 1]) if d.p(0.6) else d.rng(-86399, 86399)
        us = d.choice([0, 0, 999999, 1, 500000])
        delta = dt.timedelta(seconds=off, microseconds=us if off >= 0 else -us)
        if abs(delta) >= dt.timedelta(days=1):
            delta = dt.timedelta(seconds=off)
        try:
            local = base + delta
        except OverflowError:
            delta = dt.timedelta(0)
            local = base
        return {"kind": "value", "lt": lt, "value": local.replace(tzinfo=dt.timezone(delta))}

    def _gen_decimal(self, d, draw):
        under = d.choice(["fixed", "bytes"])
        if under == "fixed":
            size = d.choice([1, 2, 3, 4, 5, 8, 12, 16])
            maxp = max(1, int(math.floor(math.log10(2) * (8 * size - 1))))
            precision = d.rng(1, maxp)
        else:
            size = None
            precision = d.choice([1, 2, 3, 5, 9, 18, 19, 28, 29, 38, 60])
        scale = d.rng(0, precision)
        shape = d.i(10)
        sign = d.p(0.45)
        if shape == 0:
            digits, exp = (0,), -d.rng(0, scale)
        elif shape == 1:  # full precision
            digits, exp = tuple(d.choice([9, 1, 5]) for _ in range(precision)), -scale
        elif shape == 2:  # one digit too many
            digits, exp = tuple(d.choice([9, 1]) for _ in range(precision + 1)), -scale
        elif shape == 3:  # one fractional digit too many
            n = d.rng(1, precision)
            digits, exp = tuple(d.rng(1, 9) for _ in range(n)), -scale - 1
        elif shape == 4:  # positive exponent
            n = d.rng(1, max(1, precision // 2))
            digits, exp = tuple(d.rng(1, 9) for _ in range(n)), d.rng(1, max(1, precision))
        elif shape == 5:  # trailing zeros
            n = d.rng(1, precision)
            digits, exp = tuple(d.rng(1, 9) for _ in range(n)) + (0,) * d.rng(1, 3), -d.rng(0, scale)
        elif shape == 6 and size is not None:  # around the byte capacity
            lim = 2 ** (8 * size - 1)
            u = d.choice([lim - 1, lim, lim + 1, -lim, -lim - 1, -lim + 1, 2 * lim - 1, 2 * lim])
            sign = u < 0
            digits, exp = tuple(int(c) for c in str(abs(u))), -d.rng(0, scale)
        else:
            n = d.rng(1, precision)
            digits, exp = tuple(d.rng(0, 9) for _ in range(n)), -d.rng(0, scale)
        v = D((1 if sign else 0, digits, exp))
        return {"kind": "decimal", "under": under, "precision": precision, "scale": scale, "size": size, "value": v}

    # ------------------------------------------------------------------ oracle
    def run_case(self, case):
        kind = case["kind"]
        if kind == "enum":
            return self._enum(case["lt"], range(case["lo"], case["hi"] + 1, case["stride"]))
        if kind == "enum-month-bounds":
            ords = set()
            for y in range(1, 10000):
                for m in range(1, 13):
                    o = dt.date(y, m, 1).toordinal()
                    ords.update((o - 1, o, o + 1))
            return self._enum("date", sorted(o for o in ords if 1 <= o <= MAX_ORD))
        if kind == "enum-second-bounds":
            unit = 1000 if case["lt"] == "time-millis" else 10**6
            vals = set()
            for s in range(0, 86401):
                vals.update((s * unit - 1, s * unit, s * unit + 1))
            return self._enum(case["lt"], sorted(v for v in vals if 0 <= v < 86400 * unit))
        if kind == "value":
            return self._value(case["lt"], case["value"], case.get("wrap"))
        if kind == "decimal":
            return self._decimal(case)
        raise HarnessError(kind)

    def _mk(self, lt, raw):
        if lt == "date":
            return dt.date.fromordinal(raw)
        unit_us = 1000 if lt == "time-millis" else 1
        us = raw * unit_us
        s, us = divmod(us, 10**6)
        m, s = divmod(s, 60)
        h, m = divmod(m, 60)
        return dt.time(h, m, s, us)

    def _enum(self, lt, raws):
        schema = parsed(lt)
        labels = {"enum:" + lt}
        fo = io.BytesIO()
        vals = []
        want = bytearray()
        for raw in raws:
            v = self._mk(lt, raw)
            vals.append(v)
            spec = raw - 719163 if lt == "date" else raw
            B.enc_long(spec, want)
        for v in vals:
            try:
                fastavro.schemaless_writer(fo, schema, v)
            except Exception as e:
                raise Violation("logical-write-raises:" + lt, f"writing {v!r} raised {type(e).__name__}: {e}", exc=e)
        blob = fo.getvalue()
        self.enumerated += len(vals)
        if blob != bytes(want):
            # locate the first differing value
            pos = 0
            for v, raw in zip(vals, raws):
                e = varint(raw - 719163 if lt == "date" else raw)
                if blob[pos : pos + len(e)] != e:
                    raise Violation("logical-representation:" + lt, f"{v!r} stored as {blob[pos:pos+len(e)].hex()} (decodes to {B.dec_long(blob, pos)[0]}), specification gives {e.hex()} ({raw - 719163 if lt == 'date' else raw})")
                pos += len(e)
            raise Violation("logical-representation:" + lt, "stream differs")
        rd = io.BytesIO(blob)
        for v in vals:
            try:
                got = fastavro.schemaless_reader(rd, schema)
            except Exception as e:
                raise Violation("logical-read-raises:" + lt, f"reading back {v!r} raised {type(e).__name__}: {e}", exc=e)
            if got != v or type(got) is not type(v):
                raise Violation("logical-roundtrip:" + lt, f"wrote {v!r}, read {got!r}")
        return labels

    def _wrapped(self, lt, wrap):
        key = (lt, wrap)
        if key not in PARSED:
            s = SCHEMAS[lt]
            js = {"record": {"type": "record", "name": "W", "fields": [{"name": "pad", "type": "string"}, {"name": "v", "type": s}]},
                  "array": {"type": "array", "items": s},
                  "union": ["null", s],
                  "map": {"type": "map", "values": ["null", s]}}[wrap]
            PARSED[key] = fastavro.parse_schema(js)
        return PARSED[key]

    def _value(self, lt, v, wrap=None):
        schema = parsed(lt)
        labels = set()
        node = node_for(lt)
        if lt == "uuid":
            labels.add("gen:uuid")
            want = bytearray()
            sb = str(v).encode()
            B.enc_long(len(sb), want)
            want += sb
        else:
            if isinstance(v, dt.datetime):
                if lt.startswith("local"):
                    labels.add("gen:local-timestamp")
                    raw = RL.to_raw(node, v)
                elif v.tzinfo is None:
                    labels.add("gen:timestamp-naive")
                    raw = RL.to_raw(node, v.replace(tzinfo=UTC))
                else:
                    labels.add("gen:timestamp-aware")
                    if v.utcoffset():
                        labels.add("offset:nonzero")
                    raw = RL.to_raw(node, v)
                if raw < 0:
                    labels.add("pre-epoch")
            else:
                labels.add("gen:" + lt)
                raw = RL.to_raw(node, v)
            want = varint(raw)
        exp = trunc_expected(lt, v)
        if wrap:
            # the same value nested in a record / array / union / map of unions: same leaf bytes, same read-back
            labels.add("wrapped:" + wrap)
            ws = self._wrapped(lt, wrap)
            datum, pre, post, unwrap = {
                "record": ({"pad": "p", "v": v}, b"\x02p", b"", lambda r: r["v"]),
                "array": ([v, v], b"\x04", None, lambda r: r[1]),
                "union": (v, b"\x02", b"", lambda r: r),
                "map": ({"k": v}, b"\x02\x02k\x02", b"\x00", lambda r: r["k"]),
            }[wrap]
            wantw = pre + bytes(want) + (bytes(want) + b"\x00" if wrap == "array" else post)
            fo = io.BytesIO()
            guard("logical-write:" + lt, fastavro.schemaless_writer, fo, ws, datum)
            if fo.getvalue() != wantw:
                raise Violation("logical-representation:" + lt + ":" + wrap, f"{v!r} nested in {wrap} stored as {fo.getvalue().hex()}, specification gives {wantw.hex()}")
            back = guard("logical-read:" + lt, fastavro.schemaless_reader, io.BytesIO(wantw), ws)
            gotw = unwrap(back)
            if gotw != exp or type(gotw) is not type(exp):
                raise Violation("logical-roundtrip:" + lt + ":" + wrap, f"wrote {v!r} nested in {wrap}, read {gotw!r}, expected {exp!r}")
            if wrap == "record":
                # the other entry points convert the same way: container file, validation, JSON
                labels.add("paths:container+validate+json")
                cfo = io.BytesIO()
                guard("logical-write:" + lt, fastavro.writer, cfo, ws, [datum, datum], sync_marker=b"\x07" * 16)
                pf = RC.parse(cfo.getvalue())
                payload = b"".join(b["data"] for b in pf["blocks"])
                if payload != wantw * 2:
                    raise Violation("logical-representation:" + lt + ":container", f"{v!r} stored in a container block as {payload.hex()}, specification gives {(wantw * 2).hex()}")
                cfo.seek(0)
                backc = guard("logical-read:" + lt, lambda: list(fastavro.reader(cfo)))
                if len(backc) != 2 or any(unwrap(r) != exp or type(unwrap(r)) is not type(exp) for r in backc):
                    raise Violation("logical-roundtrip:" + lt + ":container", f"wrote {v!r}, container reader returned {backc!r:.200}, expected {exp!r}")
                ok = guard("logical-validate:" + lt, validate, datum, ws, raise_errors=False)
                if ok is not True:
                    raise Violation("logical-validate:" + lt, f"validate({datum!r:.120}) = {ok!r} for a value the writer stores")
                so = io.StringIO()
                guard("logical-json-write:" + lt, fastavro.json_writer, so, ws, [datum])
                backj = guard("logical-json-read:" + lt, lambda: list(fastavro.json_reader(io.StringIO(so.getvalue()), ws)))
                if len(backj) != 1 or unwrap(backj[0]) != exp or type(unwrap(backj[0])) is not type(exp):
                    raise Violation("logical-roundtrip:" + lt + ":json", f"wrote {v!r} as JSON {so.getvalue()!r:.120}, read back {backj!r:.200}, expected {exp!r}")
        fo = io.BytesIO()
        guard("logical-write:" + lt, fastavro.schemaless_writer, fo, schema, v)
        blob = fo.getvalue()
        if blob != bytes(want):
            raise Violation("logical-representation:" + lt, f"{v!r} stored as {blob.hex()}, specification gives {bytes(want).hex()}")
        got = guard("logical-read:" + lt, fastavro.schemaless_reader, io.BytesIO(blob), schema)
        if got != exp or type(got) is not type(exp):
            raise Violation("logical-roundtrip:" + lt, f"wrote {v!r}, read {got!r}, expected {exp!r}")
        if isinstance(exp, dt.datetime):
            if (got.tzinfo is None) != (exp.tzinfo is None):
                raise Violation("logical-tz:" + lt, f"wrote {v!r}, read {got!r} (awareness differs)")
            if got.tzinfo is not None and got.utcoffset() != dt.timedelta(0):
                raise Violation("logical-not-utc:" + lt, f"read {got!r}: not in UTC")
        return labels

    def _decimal(self, case):
        prec, scale, size, under, v = case["precision"], case["scale"], case["size"], case["under"], case["value"]
        labels = {"dec:" + under}
        js = {"type": under, "logicalType": "decimal", "precision": prec, "scale": scale}
        if scale == 0 and prec % 2 == 0:
            del js["scale"]  # the attribute is optional and defaults to 0
            labels.add("dec:scale-omitted")
        if under == "fixed":
            js.update(name="DecF", size=size)
        schema = guard("parse-valid-schema", fastavro.parse_schema, js)
        sign, digits, exp = v.as_tuple()
        if sign:
            labels.add("dec:negative")
        if v.is_zero() and sign:
            labels.add("dec:negative-zero")
        if exp > 0:
            labels.add("dec:positive-exponent")
        # exact representability
        scaled = v.scaleb(scale, BIG)
        integral = scaled == scaled.to_integral_value(context=BIG)
        unscaled = int(scaled) if integral else None
        stripped = len(str(abs(unscaled)).rstrip("0")) if (integral and unscaled != 0) else (1 if integral else None)
        sig = len(v.normalize(BIG).as_tuple().digits) if not v.is_zero() else 1
        fits = True
        if integral and under == "fixed":
            fits = -(2 ** (8 * size - 1)) <= unscaled < 2 ** (8 * size - 1)
        must_raise = (not integral) or sig > prec or not fits
        clearly_ok = integral and len(digits) <= prec and -exp <= scale and fits and len(str(abs(unscaled))) <= prec
        fo = io.BytesIO()
        o = outcome(fastavro.schemaless_writer, fo, schema, v)
        ctx = f"Decimal({str(v)!r}) under {under} decimal(precision={prec}, scale={scale}" + (f", size={size})" if size else ")")
        if must_raise:
            labels.add("dec:must-raise")
            if o[0] == "ok":
                stored = self._decode_dec(fo.getvalue(), under, size, scale)
                raise Violation("decimal-unrepresentable-stored:" + under, f"{ctx} is not exactly representable but was stored as {fo.getvalue().hex()} (= {stored})")
            return labels
        if o[0] != "ok":
            if clearly_ok:
                raise Violation("decimal-representable-refused:" + under, f"{ctx} raised {type(o[1]).__name__}: {o[1]}")
            labels.add("dec:refused-ambiguous")
            return labels
        blob = fo.getvalue()
        stored = self._decode_dec(blob, under, size, scale)
        if stored is None or stored != v:
            raise Violation("decimal-stored-as-other-number:" + under, f"{ctx} stored as {blob.hex()} which denotes {stored}")
        if under == "fixed":
            want = unscaled.to_bytes(size, "big", signed=True)
            if blob != want:
                raise Violation("decimal-fixed-layout", f"{ctx} stored as {blob.hex()}, specification gives {want.hex()}")
        got = guard("logical-read:decimal", fastavro.schemaless_reader, io.BytesIO(blob), schema)
        if not isinstance(got, D) or got != v:
            if clearly_ok or len(str(abs(unscaled))) <= prec:
                raise Violation("decimal-roundtrip:" + under, f"{ctx} read back as {got!r}")
        labels.add("dec:roundtrip")
        if under == "bytes" and (clearly_ok or len(str(abs(unscaled))) <= prec):
            # a two's-complement integer may carry redundant sign bytes (writers other than fastavro emit them): the
            # same number must be read
            n, pos = B.dec_long(blob, 0)
            raw = blob[pos:]
            pad = (b"\xff" if unscaled < 0 else b"\x00") * 2
            out = bytearray()
            B.enc_long(len(raw) + 2, out)
            got2 = guard("logical-read:decimal", fastavro.schemaless_reader, io.BytesIO(bytes(out) + pad + raw), schema)
            labels.add("dec:sign-extended-read")
            if not isinstance(got2, D) or got2 != v:
                raise Violation("decimal-sign-extended-read", f"{ctx}: the encoding with two redundant sign bytes reads as {got2!r}")
        return labels

    def _decode_dec(self, blob, under, size, scale):
        try:
            if under == "bytes":
                n, pos = B.dec_long(blob, 0)
                raw = blob[pos : pos + n]
                if len(raw) != n or pos + n != len(blob) or n == 0:
                    return None
            else:
                raw = blob
                if len(raw) != size:
                    return None
            return D(int.from_bytes(raw, "big", signed=True)).scaleb(-scale, BIG)
        except Exception:
            return None

    def nontrivial(self, labels):
        return bool(labels)


CHECK = C16()

"""C15 - JSON codec emits the spec's JSON encoding, round-trips, agrees with binary."""
import io
import json

import fastavro
from fastavro import json_writer, json_reader
from hypothesis import strategies as st

from .. import gen, bincase
from ..ref import model as M
from ..ref import binary as B
from ..ref import jsonenc as J
from ..runner import Check, Violation, guard, outcome, HarnessError


def features_of(node, table, labels, path=(), seen=()):
    """Structural facts used by known-finding predicates."""
    k = node["k"]
    if k == "ref":
        if node["name"] in seen:
            kinds = [p for p in path[::-1]]
            # how is the recursion reached?  (innermost container kinds up to the record)
            labels.add("recursive")
            via = []
            for p in reversed(path):
                if p == "record:" + node["name"]:
                    break
                via.append(p.split(":")[0])
            labels.add("recursion-via:" + ("+".join(sorted(set(v for v in via if v != "record"))) or "direct"))
        else:
            features_of(table[node["name"]], table, labels, path, seen)
        return
    if k == "record":
        if not node["fields"]:
            labels.add("empty-record")
            if "map" in [p.split(":")[0] for p in path]:
                labels.add("empty-record-in-map")
        if any(p.startswith("record:") for p in path) and any(p == "map" for p in path):
            labels.add("record-nested-under-map")
        for f in node["fields"]:
            features_of(f["type"], table, labels, path + ("record:" + node["name"],), seen + (node["name"],))
    elif k == "array":
        features_of(node["items"], table, labels, path + ("array",), seen)
    elif k == "map":
        features_of(node["values"], table, labels, path + ("map",), seen)
    elif k == "union":
        for i, b in enumerate(node["branches"]):
            features_of(b, table, labels, path + ("union",), seen)


def float_where_int(got, want):
    """First JSON value that the specification makes an integer but the text spells as a float, else None."""
    if isinstance(want, bool) or want is None:
        return None
    if isinstance(want, int):
        return got if isinstance(got, float) else None
    if isinstance(want, dict) and isinstance(got, dict):
        for key, v in want.items():
            if key in got:
                r = float_where_int(got[key], v)
                if r is not None:
                    return r
    elif isinstance(want, list) and isinstance(got, list):
        for a, b in zip(got, want):
            r = float_where_int(a, b)
            if r is not None:
                return r
    return None


def nested_union(node, table, top=False, seen=()):
    """Does the type contain a union below its top level (inside an array, map or record)?"""
    k = node["k"]
    if k == "ref":
        if node["name"] in seen:
            return False
        return nested_union(table[node["name"]], table, top, seen + (node["name"],))
    if k == "union":
        if not top:
            return True
        return any(nested_union(b, table, False, seen) for b in node["branches"] if M.deref(b, table)["k"] in ("array", "map", "record"))
    if k == "array":
        return nested_union(node["items"], table, False, seen)
    if k == "map":
        return nested_union(node["values"], table, False, seen)
    if k == "record":
        return any(nested_union(f["type"], table, False, seen) for f in node["fields"])
    return False


def map_value_ends_in_record(node, table, seen=()):
    """A map whose value is a record (possibly via a union) whose last field is a record (possibly via a union)."""
    k = node["k"]
    if k == "ref":
        if node["name"] in seen:
            return False
        return map_value_ends_in_record(table[node["name"]], table, seen + (node["name"],))
    def as_records(n):
        n = M.deref(n, table)
        if n["k"] == "record":
            return [n]
        if n["k"] == "union":
            return [M.deref(b, table) for b in n["branches"] if M.deref(b, table)["k"] == "record"]
        return []
    if k == "map":
        for rec in as_records(node["values"]):
            if rec["fields"] and as_records(rec["fields"][-1]["type"]):
                return True
        return map_value_ends_in_record(node["values"], table, seen)
    if k == "array":
        return map_value_ends_in_record(node["items"], table, seen)
    if k == "union":
        return any(map_value_ends_in_record(b, table, seen) for b in node["branches"])
    if k == "record":
        return any(map_value_ends_in_record(f["type"], table, seen + (node["name"],)) for f in node["fields"])
    return False


def ends_in_empty_record(node, table, depth=0):
    """The last thing written for a value of this type is a field-less record reached through last fields only."""
    n = M.deref(node, table)
    if n["k"] != "record" or depth > 30:
        return False
    if not n["fields"]:
        return True
    return ends_in_empty_record(n["fields"][-1]["type"], table, depth + 1)


def empty_record_finding_shape(node, table, seen=()):
    """Shapes of F-JSON-EMPTY-RECORD: the whole datum ends in a field-less record (chain of last fields from the top), or
    a map value does (a record, possibly via a union, whose chain of last fields ends in one)."""
    if ends_in_empty_record(node, table):
        return True

    def walk(n, seen):
        k = n["k"]
        if k == "ref":
            if n["name"] in seen:
                return False
            return walk(table[n["name"]], seen + (n["name"],))
        if k == "map":
            v = M.deref(n["values"], table)
            cands = [v] if v["k"] != "union" else [M.deref(b, table) for b in v["branches"]]
            if any(ends_in_empty_record(c, table) for c in cands):
                return True
            return walk(n["values"], seen)
        if k == "array":
            return walk(n["items"], seen)
        if k == "union":
            return any(walk(b, seen) for b in n["branches"])
        if k == "record":
            return any(walk(f["type"], seen + (n["name"],)) for f in n["fields"])
        return False

    return walk(node, seen)


def record_reuse_substring(node, table, include_inline=False):
    """A record that is used again by name and has a field whose type string (primitive or reference)
    contains the record's full name as a substring: the grammar builder's `name in field["type"]` test
    mistakes it for recursion."""
    reused = set()

    def refs(n):
        k = n["k"]
        if k == "ref":
            if table[n["name"]]["k"] == "record":
                reused.add(n["name"])
        elif k == "record":
            for f in n["fields"]:
                refs(f["type"])
        elif k == "array":
            refs(n["items"])
        elif k == "map":
            refs(n["values"])
        elif k == "union":
            for b in n["branches"]:
                refs(b)

    refs(node)
    # a by-name field type whose name contains the enclosing record's name trips the same test even when the record itself
    # is used only once (record Rec with a field of type "ns.Rec")
    for name, t in table.items():
        if t["k"] == "record":
            for f in t["fields"]:
                if f["type"]["k"] == "ref" and name in f["type"]["name"]:
                    return True
    for name in reused:
        for f in table[name]["fields"]:
            t = f["type"]
            ts = t["name"] if (t["k"] == "ref" or (include_inline and t["k"] in M.NAMED)) else (t["k"] if t["k"] in M.PRIMS and "logical" not in t else None)
            if ts is not None and name in ts:
                return True
    return False


def data_depth(d, depth=0):
    if isinstance(d, dict):
        return max([data_depth(v, depth + 1) for v in d.values()] + [depth + 1])
    if isinstance(d, (list, tuple)):
        return max([data_depth(v, depth + 1) for v in d] + [depth + 1])
    return depth


class C15(Check):
    pid = "C15"
    level = "exploration"
    rule = (
        "Generated schemas of every top-level kind (nested arrays/maps/unions/records, by-name references, recursion, "
        "field-less records, map keys equal to field names and the empty key) x 1-3 conforming records x write_union_type. "
        "Each line written by json_writer, parsed with json.loads, must equal the independent specification JSON encoding for "
        "the union branches the writer selects (taken from the binary encoding of the same datum); json_reader on that text must "
        "return the normalised records, which must equal (numbers by value) the records decoded from the binary encoding; "
        "after deleting top-level keys that have schema defaults the reader must supply the defaults. Floats finite and "
        "float32-representable under 'float'. Non-trivial = schema with a union, named reference, map or nested record. "
        "Distinct by digest."
    )
    assumptions = ["write_union_type=False output is compared with the plain encoding only (it is documented as not re-readable)"]
    required_labels = ["s:union", "s:map", "s:array", "s:ref", "s:enum", "s:fixed", "s:bytes", "top:non-record", "multi-record", "defaults-deleted", "plain-union", "nested-container-default", "top-level-null-document", "zero-records", "defaults-deleted:nested", "defaults-deleted:not-last"]
    quick = (3500, 1)
    thorough = (8000, 16)

    def __init__(self):
        self.feat = gen.Features(big=False, exotic_seqs=False, extra_keys=0.0, hints=0.0, recursion=False, empty_records=True, dict_null=True)

    def selftest(self):
        B.selftest()

    def strategy(self, tier):
        feat = self.feat

        @st.composite
        def cases(draw):
            d = gen.D(draw)
            if d.p(0.08):
                return self.nested_default_case(d)
            if d.p(0.06):
                return self.named_default_case(d)
            if d.p(0.05):
                return self.nullable_top_case(d)
            # recursive types at a low rate: deep data and recursion through collections are known findings (absorbed by
            # their matchers), shallow data works and is asserted
            f = gen.Features(**dict(feat.__dict__, recursion=True, max_depth=3)) if d.p(0.12) else feat
            ir, table, js = gen.build_schema(d, f)
            gen.check_truth(ir, table, js)
            dg = JsonData(d, f, table)
            n = d.weighted([(1, 5), (2, 3), (3, 2), (0, 1)])
            return {"schema": js, "records": [dg.gen(ir, 5) for _ in range(n)], "write_union_type": not d.p(0.15), "parsed": d.p(0.3), "absent_seed": d.rng(0, 63)}

        return cases()

    def named_default_case(self, d):
        """One named type referred to by name from several fields that declare different defaults."""
        E = {"type": "enum", "name": "nd.Size", "symbols": ["S", "M", "L"]}
        P = {"type": "record", "name": "nd.Point", "fields": [{"name": "x", "type": "int"}, {"name": "y", "type": "int"}]}
        F = {"type": "fixed", "name": "nd.Tag", "size": 2}
        defs = [(E, "nd.Size", ["S", "M", "L"]), (P, "nd.Point", [{"x": 0, "y": 0}, {"x": 1, "y": 1}])]
        fields = []
        seen = set()
        for j in range(d.rng(3, 6)):
            tdef, tname, choices = d.choice(defs)
            t = tdef if tname not in seen else tname
            seen.add(tname)
            fields.append({"name": f"f{j}", "type": t, "default": d.choice(choices)})
        fields.append({"name": "n", "type": "int"})
        recs = []
        for _ in range(d.rng(1, 3)):
            r = {"n": d.rng(0, 5)}
            for f in fields[:-1]:
                if d.p(0.5):
                    r[f["name"]] = f["default"]
            recs.append(r)
        return {"schema": {"type": "record", "name": "nd.Holder", "fields": fields}, "records": recs, "write_union_type": True, "parsed": d.p(0.5)}

    def nullable_top_case(self, d):
        """Top-level schemas for which a whole JSON document is `null`, with nulls at the start, middle and end."""
        js = d.choice([["null", "int"], ["string", "null"], "null", ["null", {"type": "record", "name": "nt.R", "fields": [{"name": "a", "type": "long"}]}]])
        others = {0: [5, -1], 1: ["s", ""], 2: [None], 3: [{"a": 1}, {"a": 2**40}]}
        idx = [["null", "int"], ["string", "null"], "null"].index(js) if js in [["null", "int"], ["string", "null"], "null"] else 3
        recs = []
        for _ in range(d.rng(2, 5)):
            recs.append(None if d.p(0.5) else d.choice(others[idx]))
        return {"schema": js, "records": recs, "write_union_type": True, "parsed": False}

    def nested_default_case(self, d):
        """Defaults that are nested containers; some records omit the field, several records per text."""
        fields = [
            {"name": "xss", "type": {"type": "array", "items": {"type": "array", "items": "int"}}, "default": d.choice([[[1, 2], [3]], [[]], [[7]]])},
            {"name": "ma", "type": {"type": "map", "values": {"type": "array", "items": "string"}}, "default": d.choice([{"k": ["a", "b"]}, {"": [""]}])},
            {"name": "rd", "type": {"type": "record", "name": "InnerD", "fields": [{"name": "flags", "type": {"type": "array", "items": "boolean"}}, {"name": "n", "type": "int"}]}, "default": {"flags": [True, False], "n": 1}},
            {"name": "mm", "type": {"type": "map", "values": {"type": "map", "values": "long"}}, "default": {"o": {"i": 1}}},
            {"name": "plain", "type": "int"},
        ]
        keep = [f for f in fields[:4] if d.p(0.7)] + [fields[4]]
        n = d.rng(2, 4)
        recs = []
        for _ in range(n):
            r = {"plain": d.rng(-5, 5)}
            for f in keep[:-1]:
                if d.p(0.4):
                    r[f["name"]] = {"xss": [[9]], "ma": {"q": []}, "rd": {"flags": [], "n": 0}, "mm": {}}[f["name"]]
            recs.append(r)
        return {"schema": {"type": "record", "name": "NestedDefaults", "fields": keep}, "records": recs, "write_union_type": True, "parsed": d.p(0.5)}

    def fixed_cases(self, tier):
        base = {"write_union_type": True, "parsed": False}
        yield dict(base, schema={"type": "record", "name": "R", "fields": [{"name": "a", "type": ["null", "int"], "default": None}, {"name": "b", "type": "bytes"}, {"name": "m", "type": {"type": "map", "values": "long"}}]},
                   records=[{"a": 5, "b": bytes(range(256)), "m": {"k": 1, "a": 2}}, {"a": None, "b": b"", "m": {}}])
        yield dict(base, schema=["null", {"type": "enum", "name": "ns.E", "symbols": ["A", "B"]}, {"type": "fixed", "name": "ns.F", "size": 2}, {"type": "array", "items": "int"}], records=[None, "B", b"\xff\x00", [1, 2]])

    def run_case(self, case):
        js = case["schema"]
        node, table = M.resolve(js)
        labels = gen.schema_labels(node, table)
        labels.add("top:record" if node["k"] == "record" else "top:non-record")
        feats = set()
        features_of(node, table, feats)
        labels |= {"f:" + x for x in feats}
        recs = case["records"]
        if len(recs) > 1:
            labels.add("multi-record")
        if len(recs) > 1 and any(r is None for r in recs):
            labels.add("top-level-null-document")
        wut = case.get("write_union_type", True)
        schema = bincase.fa_schema(fastavro, case)
        # binary reference path: branches + normalised values
        norms, traces = [], []
        for r in recs:
            fo = io.BytesIO()
            guard("write-conforming", fastavro.schemaless_writer, fo, schema, r)
            try:
                trace, value, pos = bincase.trace_of(node, table, fo.getvalue())
                _, norm = B.encode(node, table, r, B.Picker(indices=trace))
            except (B.RefError, B.NotConforming):
                labels.add("skipped:binary-not-spec")
                return labels
            norms.append(norm)
            traces.append(trace)
        ctx = f"schema={js!r:.400} records={recs!r:.300}"
        so = io.StringIO()
        guard("json-write", json_writer, so, schema, recs, write_union_type=wut)
        text = so.getvalue()
        # one JSON document per record, whatever white space separates them
        lines = []
        dec = json.JSONDecoder()
        idx = 0
        while True:
            while idx < len(text) and text[idx] in " \t\r\n":
                idx += 1
            if idx >= len(text):
                break
            try:
                _, end = dec.raw_decode(text, idx)
            except ValueError:
                raise Violation("json-not-json", f"output is not a sequence of JSON documents at offset {idx}: {text[idx:idx + 200]!r}; {ctx}")
            lines.append(text[idx:end])
            idx = end
        if not recs:
            labels.add("zero-records")
        if len(lines) != len(recs):
            raise Violation("json-line-count", f"{len(lines)} documents for {len(recs)} records; text={text!r:.300}; {ctx}")
        for line, r, trace in zip(lines, recs, traces):
            got = json.loads(line)
            notes = set()
            want = J.encode(node, table, r, B.Picker(indices=trace), union_wrap=wut, notes=notes)
            if notes:
                # a number that is not representable in the target width: JSON and binary cannot agree by value
                labels.add("domain:number-not-representable")
                return labels
            if not B.same_by_value(got, want):
                raise Violation("json-encoding-differs" + ("" if wut else ":plain"), f"json_writer wrote {line!r:.300}, specification gives {json.dumps(want)!r:.300}; {ctx}")
            bad = float_where_int(got, want)
            if bad is not None:
                raise Violation("json-int-written-as-float", f"int/long value written as the JSON number {bad!r} (not an integer literal): {line!r:.300}; {ctx}")
        if not wut:
            labels.add("plain-union")
            return labels
        back = guard("json-read", lambda: list(json_reader(io.StringIO(text), schema)))
        if len(back) != len(norms) or not all(B.same_by_value(g, e) for g, e in zip(back, norms)):
            raise Violation("json-roundtrip-mismatch", f"json_reader returned {back!r:.300}, binary decoding gives {norms!r:.300}; text={text!r:.300}; {ctx}")
        # absent keys take their defaults (top-level record fields with defaults)
        if node["k"] == "record":
            dfl = [f for f in node["fields"] if "default" in f and (case.get("include_nested_union_defaults") or not nested_union(f["type"], table, top=True))]
            if any("default" in f and nested_union(f["type"], table, top=True) for f in node["fields"]):
                labels.add("excluded:default-with-nested-union")
            if dfl and lines:
                labels.add("defaults-deleted")
                if len(lines) >= 2 and any(isinstance(f["default"], (list, dict)) and any(isinstance(x, (list, dict)) for x in (f["default"].values() if isinstance(f["default"], dict) else f["default"])) for f in dfl):
                    labels.add("nested-container-default")
                objs = [json.loads(l) for l in lines]
                exp = []
                for o, n in zip(objs, norms):
                    n2 = dict(n)
                    for f in dfl:
                        o.pop(f["name"], None)
                        n2[f["name"]] = self._default_norm(f, table)
                    exp.append(n2)
                text2 = "\n".join(json.dumps(o) for o in objs)
                back2 = guard("json-read-with-absent-defaulted-keys", lambda: list(json_reader(io.StringIO(text2), schema)))
                if len(back2) != len(exp) or not all(B.same_by_value(g, e) for g, e in zip(back2, exp)):
                    raise Violation("json-defaults-mismatch", f"with defaulted keys deleted json_reader returned {back2!r:.300}, expected {exp!r:.300}; text={text2!r:.300}; {ctx}")
        # the same at any depth and for a pseudo-random subset of the defaulted fields (drawn per case)
        seedv = case.get("absent_seed", 1)
        counter = [0]
        deleted = [0, 0]  # nested deletions, records that kept a later key

        def chooser():
            counter[0] += 1
            return ((seedv * 1103515245 + counter[0] * 12345) >> 4) % 3 != 0

        def prune(n_, j, v, depth):
            n_ = M.deref(n_, table)
            k = n_["k"]
            if k == "record" and isinstance(j, dict) and isinstance(v, dict):
                j2, v2 = {}, {}
                names = [f["name"] for f in n_["fields"]]
                for i, f in enumerate(n_["fields"]):
                    nm = f["name"]
                    eligible = "default" in f and (case.get("include_nested_union_defaults") or not nested_union(f["type"], table, top=True))
                    if eligible and nm in j and chooser():
                        v2[nm] = self._default_norm(f, table)
                        if depth > 0:
                            deleted[0] += 1
                        if i + 1 < len(names):
                            deleted[1] += 1
                        continue
                    if nm in j:
                        j2[nm], v2[nm] = prune(f["type"], j[nm], v.get(nm), depth + 1)
                return j2, v2
            if k == "array" and isinstance(j, list) and isinstance(v, list) and len(j) == len(v):
                out = [prune(n_["items"], a, b, depth + 1) for a, b in zip(j, v)]
                return [a for a, _ in out], [b for _, b in out]
            if k == "map" and isinstance(j, dict) and isinstance(v, dict) and set(j) == set(v):
                out = {key: prune(n_["values"], j[key], v[key], depth + 1) for key in j}
                return {key: a for key, (a, _) in out.items()}, {key: b for key, (_, b) in out.items()}
            if k == "union" and isinstance(j, dict) and len(j) == 1:
                (key, val), = j.items()
                for b in n_["branches"]:
                    if M.branch_name(b, table) == key and M.deref(b, table)["k"] != "null":
                        a, b2 = prune(b, val, v, depth + 1)
                        return {key: a}, b2
            return j, v

        if lines:
            pruned = [prune(node, json.loads(l), n, 0) for l, n in zip(lines, norms)]
            if deleted[0]:
                labels.add("defaults-deleted:nested")
            if deleted[1]:
                labels.add("defaults-deleted:not-last")
            if deleted[0] or deleted[1]:
                text3 = "\n".join(json.dumps(a) for a, _ in pruned)
                exp3 = [b for _, b in pruned]
                back3 = guard("json-read-with-absent-defaulted-keys", lambda: list(json_reader(io.StringIO(text3), schema)))
                if len(back3) != len(exp3) or not all(B.same_by_value(g, e) for g, e in zip(back3, exp3)):
                    raise Violation("json-defaults-mismatch:nested", f"with some defaulted keys deleted (any depth) json_reader returned {back3!r:.300}, expected {exp3!r:.300}; text={text3!r:.300}; {ctx}")
        return labels

    def _default_norm(self, f, table):
        v = B.default_datum(f["type"], table, f["default"])
        _, norm = B.encode(f["type"], table, v)
        return norm

    def nontrivial(self, labels):
        return bool(labels & {"s:union", "s:ref", "s:map"} or ("s:record" in labels and "f:record-nested" in labels))

    def predicates(self):
        def has(feature):
            def p(case, message):
                node, table = M.resolve(case["schema"])
                feats = set()
                features_of(node, table, feats)
                return feature in feats
            return p

        def deep_recursion(case, message):
            node, table = M.resolve(case["schema"])
            feats = set()
            features_of(node, table, feats)
            return "recursive" in feats

        def map_nested(case, message):
            node, table = M.resolve(case["schema"])
            return map_value_ends_in_record(node, table)

        def default_nested_union(case, message):
            node, table = M.resolve(case["schema"])
            return node["k"] == "record" and any("default" in f and nested_union(f["type"], table, top=True) for f in node["fields"])

        def empty_shape(case, message):
            node, table = M.resolve(case["schema"])
            return empty_record_finding_shape(node, table)

        def reuse(case, message):
            node, table = M.resolve(case["schema"])
            return record_reuse_substring(node, table)

        return {"record-reuse-substring": reuse, "recursive": deep_recursion, "empty-record": empty_shape, "map-value-ends-in-record": map_nested, "default-with-nested-union": default_nested_union}


class JsonData(gen.DataGen):
    """Floats finite, float32-representable under 'float' (JSON and binary then agree by value)."""

    def gen(self, node, budget, in_union=False):
        k = node["k"]
        d = self.d
        if k == "double":
            return d.choice([0.0, 1.5, -2.25, 1e100, 5e-324, 123456.789, 0.1]) if d.p(0.7) else d.draw(st.floats(allow_nan=False, allow_infinity=False))
        if k == "float":
            return d.choice([0.0, 1.5, -2.25, 0.10000000149011612, 16777216.0, 3.4028234663852886e38]) if d.p(0.7) else d.draw(st.floats(width=32, allow_nan=False, allow_infinity=False))
        return super().gen(node, budget, in_union)


CHECK = C15()

"""C12 - parsing is idempotent; raw, parsed and piecewise-parsed schemas behave alike."""
import copy
import io
import json
import random

import fastavro
from fastavro import parse_schema, json_writer, json_reader
from fastavro.schema import to_parsing_canonical_form
from fastavro.validation import validate
from fastavro.utils import generate_many
from hypothesis import strategies as st

from .. import gen, bincase, tagged
from ..ref import model as M
from ..ref import binary as B
from ..ref import canon
from ..ref import container as RC
from ..runner import Check, Violation, guard, outcome, HarnessError

MARK = b"\x12" * 16


def strip_markers(x):
    if isinstance(x, dict):
        return {k: strip_markers(v) for k, v in x.items() if k not in ("__fastavro_parsed", "__named_schemas")}
    if isinstance(x, list):
        return [strip_markers(v) for v in x]
    return x


def describe(o):
    """Comparable description of an outcome (value or exception class)."""
    if o[0] == "ok":
        return ("ok", o[1])
    return ("exc", type(o[1]).__name__)


def same_outcome(a, b):
    if a[0] != b[0]:
        return False
    if a[0] == "exc":
        return a[1] == b[1]
    return B.same(a[1], b[1]) if not isinstance(a[1], (bytes, str)) else a[1] == b[1]


class C12(Check):
    pid = "C12"
    level = "exploration"
    rule = (
        "Generated schemas with >=1 named type; a drawn subset of the named types (with what they reach) is split off, in "
        "dependency order, into pieces parsed separately against one shared named_schemas dictionary, the remainder referring "
        "to them by name; 1-2 conforming data plus one non-conforming datum. Oracle: parse_schema(parsed) == parsed "
        "(equality); every operation - schemaless write (bytes) and read, container write (blocks after the header with an "
        "explicit sync marker) and read, JSON write (text) and read, validate on conforming and non-conforming data, "
        "generate_many under a fixed random.seed, canonical form (raw vs parsed) - must give identical bytes / values / "
        "exception classes for raw, parsed and piecewise forms. Two sub-checks that the pinned tree is known to fail for "
        "every piecewise schema (container readable on its own; canonical form of the piecewise form) run only in the "
        "deterministic probes of the known findings. Non-trivial = a piecewise split was applied. Distinct by digest."
    )
    assumptions = [
        "'returns it unchanged' is equality, not identity (only records carry the parsed marker)",
        "container files embed the schema text they were given: headers are compared through canonical form, codec and metadata, blocks byte for byte",
        "JSON operations are skipped for schemas in the C15 known-finding classes",
    ]
    required_labels = ["piecewise", "piecewise:top-is-record", "ops:json", "ops:container", "ops:generate", "ops:json-defaults", "idempotent", "s:recursive"]
    quick = (1500, 1)
    thorough = (4000, 16)

    def __init__(self):
        self.feat = gen.Features(big=False, exotic_seqs=False, extra_keys=0.0, max_depth=4, top_kinds=("record", "record", "record", "union", "array", "map"))

    def selftest(self):
        B.selftest()
        canon.selftest()

    def strategy(self, tier):
        feat = self.feat

        @st.composite
        def cases(draw):
            d = gen.D(draw)
            if d.p(0.2):
                return self.overlap_case(d)
            if d.p(0.1):
                return self.defaults_case(d)
            ir, table, js = gen.build_schema(d, feat)
            gen.check_truth(ir, table, js)
            dg = gen.DataGen(d, feat, table)
            data = [dg.gen(ir, 5) for _ in range(d.rng(1, 2))]
            bad = d.choice([None, 5, "str", {"zz": 1}, [1], 1.5, b"x"])
            case = {"schema": js, "data": data, "bad": bad, "pieces": None, "remainder": None, "gen_seed": d.rng(0, 1000)}
            root, gtable = gen.to_graph(ir)
            sp = gen.piecewise_split(d, root, gtable) if gtable else None
            if sp is not None:
                pieces, (rem_ir, rem_t), defined = sp
                r = gen.Renderer(d, feat, table)
                # one deterministic spelling for the raw schema, the pieces and the remainder: the three forms must be
                # the same schema text-wise except for where the definitions live
                case["schema"] = gen.render_plain(ir)
                case["pieces"] = [gen.render_plain(pir) for pir, t in pieces]
                case["remainder"] = gen.render_plain(rem_ir)
            return case

        return cases()

    def defaults_case(self, d):
        """The same separately parsed types referred to by name several times with different field defaults."""
        E = {"type": "enum", "name": "dv.Colour", "symbols": ["RED", "GREEN", "BLUE"]}
        P = {"type": "record", "name": "dv.Point", "fields": [{"name": "x", "type": "int"}, {"name": "y", "type": "int"}]}
        F = {"type": "fixed", "name": "dv.Tag", "size": 2}
        defs = {"dv.Colour": (E, ["RED", "GREEN", "BLUE"]), "dv.Point": (P, [{"x": 0, "y": 0}, {"x": 1, "y": 1}, {"x": -5, "y": 7}]), }
        fields_inline, fields_ref = [], []
        seen = set()
        for j in range(d.rng(3, 6)):
            tname = d.choice(list(defs))
            tdef, choices = defs[tname]
            dv = d.choice(choices)
            wrap = d.choice(["plain", "plain", "nullable"])
            def ty(t):
                return t if wrap == "plain" else [t, "null"]
            fi = {"name": f"f{j}", "type": ty(tdef if tname not in seen else tname), "default": dv}
            fr = {"name": f"f{j}", "type": ty(tname), "default": dv}
            seen.add(tname)
            fields_inline.append(fi)
            fields_ref.append(fr)
        fields_inline.append({"name": "n", "type": "int"})
        fields_ref.append({"name": "n", "type": "int"})
        inline = {"type": "record", "name": "dv.Holder", "fields": fields_inline}
        byname = {"type": "record", "name": "dv.Holder", "fields": fields_ref}
        pieces = [defs[t][0] for t in defs if t in seen]
        data = []
        for _ in range(d.rng(1, 2)):
            r = {"n": d.rng(0, 9)}
            for f in fields_ref[:-1]:
                if d.p(0.4):
                    r[f["name"]] = f["default"]
            data.append(r)
        return {"schema": inline, "data": data, "bad": {"n": "x"}, "pieces": pieces, "remainder": byname, "gen_seed": d.rng(0, 100), "json_defaults": True}

    def overlap_case(self, d):
        """Union of records with overlapping optional fields, each record parsed as its own piece."""
        pool = ["a", "b", "c", "d"]
        types = {n: d.choice(["int", ["null", "int"], "string", ["null", "string"]]) for n in pool}
        recs = []
        for j in range(d.rng(2, 4)):
            names = [n for n in pool if d.p(0.6)] or [d.choice(pool)]
            fields = []
            for n in names:
                t = types[n]
                fl = {"name": n, "type": t}
                if d.p(0.35):
                    fl["default"] = None if isinstance(t, list) else (0 if t == "int" else "")
                fields.append(fl)
            recs.append({"type": "record", "name": f"ov.R{j}", "fields": fields})
        extra = [p for p in ["null", "string", "long"] if d.p(0.3)]
        inline = {"type": "record", "name": "ov.Holder", "fields": [{"name": "u", "type": recs + extra}, {"name": "n", "type": "int", "default": 0}]}
        byname = {"type": "record", "name": "ov.Holder", "fields": [{"name": "u", "type": [r["name"] for r in recs] + extra}, {"name": "n", "type": "int", "default": 0}]}
        data = []
        for _ in range(d.rng(1, 2)):
            val = {}
            for n in pool:
                if d.p(0.5):
                    t = types[n]
                    base = t[1] if isinstance(t, list) else t
                    val[n] = None if (isinstance(t, list) and d.p(0.3)) else (d.choice([0, 1, -5]) if base == "int" else d.choice(["", "s"]))
            data.append({"u": val})
        return {"schema": inline, "data": data, "bad": d.choice([5, {"u": 1.5}, None]), "pieces": recs, "remainder": byname, "gen_seed": d.rng(0, 100), "may_not_conform": True}

    def fixed_cases(self, tier):
        child = {"type": "record", "name": "ns.Child", "fields": [{"name": "x", "type": "int"}]}
        parent_inline = {"type": "record", "name": "ns.Parent", "fields": [{"name": "c", "type": child}, {"name": "d", "type": ["null", "ns.Child"]}]}
        parent_ref = {"type": "record", "name": "ns.Parent", "fields": [{"name": "c", "type": "ns.Child"}, {"name": "d", "type": ["null", "ns.Child"]}]}
        yield {"schema": parent_inline, "data": [{"c": {"x": 1}, "d": None}, {"c": {"x": 2}, "d": {"x": 3}}], "bad": {"c": 5}, "pieces": [child], "remainder": parent_ref, "gen_seed": 1}

    # ------------------------------------------------------------------
    def _forms(self, case):
        js = case["schema"]
        forms = {"raw": js, "parsed": guard("parse-valid-schema", parse_schema, copy.deepcopy(js))}
        if isinstance(forms["parsed"], dict) and "__named_schemas" in forms["parsed"]:
            # what older versions wrote: the parse marker without the embedded name table (re-parsed on use)
            forms["legacy"] = {k: v for k, v in copy.deepcopy(forms["parsed"]).items() if k != "__named_schemas"}
        if case.get("pieces") is not None:
            ns = {}
            for p in case["pieces"]:
                guard("parse-piece", parse_schema, copy.deepcopy(p), ns)
            forms["piecewise"] = guard("parse-remainder", parse_schema, copy.deepcopy(case["remainder"]), ns)
        return forms

    def run_case(self, case):
        js = case["schema"]
        node, table = M.resolve(js)
        labels = gen.schema_labels(node, table)
        forms = self._forms(case)
        # ---- idempotence
        p = forms["parsed"]
        before = copy.deepcopy(p)
        again = guard("parse-parsed", parse_schema, p)
        labels.add("idempotent")
        if again != before or p != before:
            raise Violation("parse-not-idempotent", f"parse_schema(parsed) differs from parsed (or changed its argument): {strip_markers(again)!r:.300} vs {strip_markers(before)!r:.300}")
        if again is p:
            labels.add("idempotent:identity")
        if "piecewise" in forms:
            labels.add("piecewise")
            pw = forms["piecewise"]
            top_record = isinstance(pw, dict) and pw.get("type") == "record"
            labels.add("piecewise:top-is-record" if top_record else "piecewise:top-not-record")
            if not top_record and not case.get("allow_nonrecord_top"):
                # known finding F-PIECEWISE-NONRECORD: only records carry the embedded name table; excluded from
                # the generated campaign, exercised by its probe
                labels.add("excluded:piecewise-top-not-record")
                del forms["piecewise"]
            else:
                before = copy.deepcopy(pw)
                again = guard("parse-parsed", parse_schema, pw)
                if again != before or pw != before:
                    raise Violation("parse-not-idempotent", "parse_schema(piecewise parsed) differs")
        json_ok = self._json_supported(node, table)
        ops = self._operations(case, node, table, json_ok, labels)
        ref = None
        results = {}
        for fname, schema in forms.items():
            results[fname] = [(name, describe(outcome(fn, schema))) for name, fn in ops]
        base = results["raw"]
        for fname, res in results.items():
            if fname == "raw":
                continue
            for (name, a), (_, b) in zip(base, res):
                if not same_outcome(a, b):
                    raise Violation(
                        f"form-dependent:{fname}:{name.split('#')[0]}",
                        f"operation {name} gives {self._short(a)} for the raw schema and {self._short(b)} for the {fname} form; schema={js!r:.300} pieces={case.get('pieces')!r:.200}",
                    )
        # ---- canonical form raw vs parsed (piecewise: known finding, probe only)
        cr = guard("canonical-form", to_parsing_canonical_form, js)
        cp = guard("canonical-form", to_parsing_canonical_form, forms["parsed"])
        if cr != cp or cr != canon.canonical(node):
            raise Violation("form-dependent:parsed:canonical-form", f"raw {cr!r:.200} parsed {cp!r:.200}")
        if "piecewise" in forms and case.get("check_piecewise_canonical"):
            cw = guard("canonical-form", to_parsing_canonical_form, forms["piecewise"])
            if cw != cr:
                raise Violation("form-dependent:piecewise:canonical-form", f"piecewise form gives {cw!r:.300}, raw schema gives {cr!r:.300}")
        # ---- container written from the piecewise form is readable on its own (known finding, probe only)
        if "piecewise" in forms and case.get("check_piecewise_container"):
            fo = io.BytesIO()
            guard("write-container", fastavro.writer, fo, forms["piecewise"], case["data"], sync_marker=MARK)
            data = fo.getvalue()
            o = outcome(lambda: list(fastavro.reader(io.BytesIO(data))))
            if o[0] != "ok":
                raise Violation("piecewise-container-unreadable", f"a container written from the piecewise-parsed schema cannot be read on its own: {type(o[1]).__name__}: {o[1]}")
        return labels

    def _short(self, d):
        return repr(d)[:200]

    def _json_supported(self, node, table):
        from .c15 import features_of, map_value_ends_in_record, record_reuse_substring
        feats = set()
        features_of(node, table, feats)
        # F-JSON-RECORD-REUSE-SUBSTRING in every schema form: once a named field type is a by-name reference (which the
        # piecewise form makes of any separately parsed type) the grammar builder's `name in field["type"]` test fires for a
        # record whose name is a substring of that type's name, whether or not the record itself is used twice
        for name, t in table.items():
            if t["k"] == "record":
                for f in t["fields"]:
                    ft = f["type"]
                    if ft["k"] == "ref" or ft["k"] in M.NAMED:
                        if name in ft["name"]:
                            return False
        return not (feats & {"recursive", "empty-record"}) and not map_value_ends_in_record(node, table) and not record_reuse_substring(node, table, include_inline=True)

    def _operations(self, case, node, table, json_ok, labels):
        data = case["data"]
        ops = []

        def sl_write(datum):
            def f(schema):
                fo = io.BytesIO()
                fastavro.schemaless_writer(fo, schema, datum)
                return fo.getvalue()
            return f

        def sl_read(datum):
            def f(schema):
                fo = io.BytesIO()
                fastavro.schemaless_writer(fo, schema, datum)
                fo.seek(0)
                return fastavro.schemaless_reader(fo, schema)
            return f

        def sl_read_rr(datum):
            def f(schema):
                fo = io.BytesIO()
                fastavro.schemaless_writer(fo, schema, datum)
                fo.seek(0)
                return fastavro.schemaless_reader(fo, schema, copy.deepcopy(strip_markers(case["schema"])))
            return f

        def sl_read_as_reader(datum):
            def f(schema):
                fo = io.BytesIO()
                fastavro.schemaless_writer(fo, copy.deepcopy(strip_markers(case["schema"])), datum)
                fo.seek(0)
                # the form under test is the READER schema; the writer schema is the raw one
                return fastavro.schemaless_reader(fo, copy.deepcopy(strip_markers(case["schema"])), schema)
            return f

        for i, datum in enumerate(data):
            ops.append((f"schemaless_reader(raw writer, form as reader)#{i}", sl_read_as_reader(datum)))
            for optname in ("return_record_name", "return_named_type"):
                def sl_read_as_reader_opt(schema, datum=datum, optname=optname):
                    # writer and reader may now give the same union branch in different forms (inline / by name)
                    fo = io.BytesIO()
                    fastavro.schemaless_writer(fo, copy.deepcopy(strip_markers(case["schema"])), datum)
                    fo.seek(0)
                    return fastavro.schemaless_reader(fo, copy.deepcopy(strip_markers(case["schema"])), schema, **{optname: True})
                ops.append((f"schemaless_reader(raw writer, form as reader, {optname})#{i}", sl_read_as_reader_opt))
                def sl_read_form_writer_opt(schema, datum=datum, optname=optname):
                    fo = io.BytesIO()
                    fastavro.schemaless_writer(fo, schema, datum)
                    fo.seek(0)
                    return fastavro.schemaless_reader(fo, schema, copy.deepcopy(strip_markers(case["schema"])), **{optname: True})
                ops.append((f"schemaless_reader(form as writer, raw reader, {optname})#{i}", sl_read_form_writer_opt))
            ops.append((f"schemaless_writer#{i}", sl_write(datum)))
            ops.append((f"schemaless_reader#{i}", sl_read(datum)))
            ops.append((f"schemaless_reader+reader_schema#{i}", sl_read_rr(datum)))
            for optname in ("return_record_name", "return_named_type"):
                def sl_read_opt(schema, datum=datum, optname=optname):
                    fo = io.BytesIO()
                    fastavro.schemaless_writer(fo, schema, datum)
                    fo.seek(0)
                    return fastavro.schemaless_reader(fo, schema, **{optname: True})
                ops.append((f"schemaless_reader({optname})#{i}", sl_read_opt))
            ops.append((f"validate#{i}", lambda schema, datum=datum: validate(datum, schema, raise_errors=False)))
        ops.append(("validate-bad", lambda schema: validate(case["bad"], schema, raise_errors=False)))
        ops.append(("validate-bad-raise", lambda schema: validate(case["bad"], schema)))
        ops.append(("schemaless_writer-bad", sl_write(case["bad"])))

        labels.add("ops:container")

        def cont_blocks(schema):
            fo = io.BytesIO()
            fastavro.writer(fo, schema, data, sync_marker=MARK, metadata={"k": "v"}, codec="deflate")
            raw = fo.getvalue()
            pf = RC.parse(raw)
            return (raw[pf["header_end"]:], pf["codec"], pf["meta"].get("k"))

        def cont_read(schema):
            fo = io.BytesIO()
            fastavro.writer(fo, schema, data, sync_marker=MARK)
            fo.seek(0)
            # the reader is given the same schema form as reader schema: this keeps the read independent of F-PIECEWISE-HEADER
            return list(fastavro.reader(fo))

        def cont_read_form_as_reader(schema):
            fo = io.BytesIO()
            fastavro.writer(fo, copy.deepcopy(strip_markers(case["schema"])), data, sync_marker=MARK)
            fo.seek(0)
            # file written from the raw schema (its header is self-contained); the form under test is the READER schema
            return list(fastavro.reader(fo, reader_schema=schema))

        def cont_header_schema(schema):
            fo = io.BytesIO()
            fastavro.writer(fo, schema, data, sync_marker=MARK)
            pf = RC.parse(fo.getvalue())
            hn, ht = M.resolve(json.loads(pf["meta"]["avro.schema"].decode("utf-8")))
            return canon.canonical(hn)

        ops.append(("writer-blocks", cont_blocks))
        ops.append(("reader(raw file, form as reader schema)", cont_read_form_as_reader))
        if case.get("pieces") is None:
            # (piecewise: F-PIECEWISE-HEADER, probe only)
            ops.append(("writer-header-schema-canonical-form", cont_header_schema))
        if case.get("pieces") is None:
            ops.append(("writer+reader", cont_read))
        if json_ok:
            labels.add("ops:json")

            def j_write(schema):
                so = io.StringIO()
                json_writer(so, schema, data)
                return so.getvalue()

            def j_read(schema):
                so = io.StringIO()
                json_writer(so, schema, data)
                return list(json_reader(io.StringIO(so.getvalue()), schema))

            ops.append(("json_writer", j_write))
            ops.append(("json_reader", j_read))
            top = case["schema"]
            if isinstance(top, dict) and top.get("type") == "record" and any("default" in f for f in top["fields"]):
                from .c15 import nested_union
                droppable = [f["name"] for f, nf in zip(top["fields"], node["fields"]) if "default" in f and not nested_union(nf["type"], table, top=True)]
                if droppable:
                    try:
                        so = io.StringIO()
                        json_writer(so, copy.deepcopy(strip_markers(top)), data)
                        objs = [json.loads(l) for l in so.getvalue().split("\n") if l]
                    except Exception:
                        objs = None  # the data do not conform (overlap family) or the JSON writer fails: covered by json_writer op
                    if objs is not None:
                        labels.add("ops:json-defaults")
                        for o in objs:
                            for nme in droppable:
                                o.pop(nme, None)
                        text_nd = "\n".join(json.dumps(o) for o in objs)
                        ops.append(("json_reader-absent-defaulted-keys", lambda schema: list(json_reader(io.StringIO(text_nd), schema))))
        labels.add("ops:generate")

        def gen_many(schema):
            st_ = random.getstate()
            try:
                random.seed(case.get("gen_seed", 1))
                return tagged.enc(list(generate_many(schema, 3)))
            finally:
                random.setstate(st_)

        if "s:recursive" not in labels:
            ops.append(("generate_many", gen_many))
        return ops

    def nontrivial(self, labels):
        return "piecewise" in labels

    def predicates(self):
        def top_not_record(case, message):
            r = case.get("remainder")
            return case.get("pieces") is not None and not (isinstance(r, dict) and r.get("type") == "record")

        def piecewise(case, message):
            return case.get("pieces") is not None

        return {"piecewise-top-not-record": top_not_record, "piecewise": piecewise}


CHECK = C12()

"""C02 - encoder output is byte-for-byte the specification's binary encoding."""
import io

import fastavro

from .. import gen, bincase
from ..ref import model as M
from ..ref import binary as B
from ..runner import Check, Violation, guard


class C02(Check):
    pid = "C02"
    level = "exploration"
    rule = (
        "Hypothesis-generated (schema, conforming datum, raw|parsed). The union branch indices are read out of "
        "fastavro's bytes by the strict reference decoder; the independent encoder then re-encodes the datum with exactly "
        "those branches (checking that the datum conforms to each) and the two byte strings must be identical; the "
        "reference decoder must consume exactly the bytes written. Non-trivial = union, named reference, non-empty "
        "collection, float/double leaf or >=2-byte varint; distinct by digest. Fixed sub-enumeration: varint boundary "
        "table for int/long, as lengths of strings/bytes and as collection sizes (1,63,64,65,8191,8192,8193 ...)."
    )
    assumptions = [
        "pure-Python modules under test",
        "map entries are compared in the datum's iteration order (the only order the statement lets the writer use)",
    ]
    required_labels = ["s:union", "s:ref", "s:float", "s:double", "s:fixed", "s:enum", "d:varint10", "d:coll>=64", "d:str>=64B", "d:nan", "d:tuple", "d:-type-hint", "d:multibyte"]
    quick = (5000, 1)
    thorough = (12000, 16)

    def __init__(self):
        self.feat = gen.Features(hints=0.1, dict_null=True, int_float_defaults=True, bytes_defaults=True, ambiguous_union_defaults=True)

    def selftest(self):
        B.selftest()

    def strategy(self, tier):
        return bincase.binary_cases(self.feat, max_data=1)

    def fixed_cases(self, tier):
        # hints are full names: a namespaced branch that shares its unqualified name with a later null-namespace branch
        # must not capture the hint meant for the latter (records, enums, fixed; raw and parsed)
        pts = [{"type": "record", "name": "v1.Point", "fields": [{"name": "x", "type": "int"}, {"name": "y", "type": "int"}]},
               {"type": "record", "name": "Point", "fields": [{"name": "x", "type": "int"}, {"name": "y", "type": "int"}, {"name": "z", "type": "int", "default": 0}]}]
        ens = ["null", {"type": "enum", "name": "ns.Level", "symbols": ["LOW", "HIGH"]}, {"type": "enum", "name": "Level", "symbols": ["HIGH", "LOW"]},
               {"type": "fixed", "name": "deep.ns.Id", "size": 2}, {"type": "fixed", "name": "Id", "size": 2}]
        wide = [2**31, 2**31 + 1, 3000000000, 2**32 - 1, 2**32, -(2**31) - 1, -3000000000, -(2**32) + 1, -(2**32), 2**31 - 1, -(2**31)]
        yield {"schema": ["int", "long"], "data": wide, "parsed": False}
        yield {"schema": {"type": "record", "name": "W", "fields": [{"name": "v", "type": ["null", "int", "long"]}, {"name": "xs", "type": {"type": "array", "items": ["int", "long", "string"]}}]},
               "data": [{"v": w, "xs": [w, 1, -w]} for w in wide], "parsed": True}
        for parsed in (False, True):
            yield {"schema": pts, "data": [("Point", {"x": 1, "y": 2, "z": 3}), ("v1.Point", {"x": 4, "y": 5}), ("Point", {"x": 6, "y": 7})], "parsed": parsed}
            yield {"schema": {"type": "array", "items": ens}, "data": [[("Level", "HIGH"), ("ns.Level", "HIGH"), ("Id", b"ab"), ("deep.ns.Id", b"cd"), None, ("Level", "LOW")]], "parsed": parsed}
        longs = sorted({s * (2**k) + dl for k in range(64) for s in (1, -1) for dl in (-1, 0, 1)
                        if B.LONG_MIN <= s * (2**k) + dl <= B.LONG_MAX} | {B.LONG_MIN, B.LONG_MAX})
        for v in longs:
            yield {"schema": "long", "data": [v], "parsed": False}
            if B.INT_MIN <= v <= B.INT_MAX:
                yield {"schema": {"type": "int"}, "data": [v], "parsed": False}
        for n in (0, 1, 63, 64, 65, 127, 128, 129, 8191, 8192, 8193, 16383, 16384, 1048575, 1048576):
            yield {"schema": "string", "data": ["a" * n], "parsed": False}
            yield {"schema": "bytes", "data": [b"\xff" * n], "parsed": True}
            if n <= 16384:
                yield {"schema": {"type": "array", "items": "null"}, "data": [[None] * n], "parsed": False}
                yield {"schema": {"type": "array", "items": "boolean"}, "data": [[True, False] * (n // 2) + [True] * (n % 2)], "parsed": False}
                yield {"schema": {"type": "map", "values": "int"}, "data": [{str(i): i for i in range(n)}], "parsed": False}
        # enum / union indices around the one-byte varint boundary
        syms = [f"S{i}" for i in range(130)]
        for i in (0, 1, 62, 63, 64, 65, 127, 128, 129):
            yield {"schema": {"type": "enum", "name": "E", "symbols": syms}, "data": [syms[i]], "parsed": False}
        branches = ["null"] + [{"type": "fixed", "name": f"F{i}", "size": 1} for i in range(1, 130)]
        for i in (1, 63, 64, 65, 127, 128, 129):
            yield {"schema": branches, "data": [(f"F{i}", b"x")], "parsed": False}

    def run_case(self, case):
        node, table = M.resolve(case["schema"])
        schema = bincase.fa_schema(fastavro, case)
        labels = gen.schema_labels(node, table)
        datum = case["data"][0]
        gen.data_labels(datum, labels)
        out = io.BytesIO()
        guard("write-conforming", fastavro.schemaless_writer, out, schema, datum)
        blob = out.getvalue()
        try:
            ref_bytes, norm, _ = bincase.expected_for(node, table, datum, blob)
        except B.RefError as e:
            raise Violation("not-a-spec-encoding", f"independent decoder rejects writer output {blob[:60].hex()}: {e}; schema={case['schema']!r} datum={datum!r:.200}")
        except B.NotConforming as e:
            raise Violation("branch-not-conforming", f"writer selected a branch the datum does not conform to ({e}); bytes={blob[:60].hex()} schema={case['schema']!r} datum={datum!r:.200}")
        if ref_bytes != blob:
            i = next((j for j in range(min(len(blob), len(ref_bytes))) if blob[j] != ref_bytes[j]), min(len(blob), len(ref_bytes)))
            raise Violation(
                "bytes-differ",
                f"first difference at offset {i}: fastavro ...{blob[max(0,i-4):i+8].hex()} reference ...{ref_bytes[max(0,i-4):i+8].hex()} "
                f"(lengths {len(blob)}/{len(ref_bytes)}) schema={case['schema']!r} datum={datum!r:.200}",
            )
        return labels

    def nontrivial(self, labels):
        return bool(
            labels & {"s:union", "s:ref", "d:coll>=64", "s:float", "s:double", "s:fixed", "s:enum"}
            or any(l.startswith("d:varint") and l != "d:varint1" for l in labels)
        )


CHECK = C02()

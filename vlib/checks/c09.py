"""C09 - union branch choice is deterministic, honours hints, closed under read/write."""
import datetime as dt
import decimal
import io
import uuid

import fastavro
from hypothesis import strategies as st

from .. import gen, bincase, tagged
from ..ref import model as M
from ..ref import binary as B
from ..ref import select as S
from .. import logicalcase
from ..runner import Check, Violation, guard, outcome, HarnessError

UTC = dt.timezone.utc

# unions with logical branches (canonical Python types only), data per branch
LOGICAL_UNIONS = [
    (["null", {"type": "int", "logicalType": "date"}, "long"], [None, dt.date(2020, 2, 29), 2**40]),
    ([{"type": "long", "logicalType": "timestamp-micros"}, "null", "string"], [dt.datetime(1999, 12, 31, 23, 59, 59, 123456, tzinfo=UTC), None, "s"]),
    (["string", {"type": "string", "logicalType": "uuid"}] if False else [{"type": "string", "logicalType": "uuid"}, "int"], [uuid.UUID(int=7), 5]),
    ([{"type": "bytes", "logicalType": "decimal", "precision": 6, "scale": 2}, "string", "null"], [decimal.Decimal("12.34"), "x", None]),
    (["null", {"type": "fixed", "name": "Dec8", "size": 8, "logicalType": "decimal", "precision": 10, "scale": 3}, "double"], [None, decimal.Decimal("-1.500"), 2.5]),
    ([{"type": "long", "logicalType": "time-micros"}, {"type": "int", "logicalType": "date"}], [dt.time(1, 2, 3, 4), dt.date(1970, 1, 1)]),
    # two decimal branches of different capacity: a value goes to the first one that can hold it
    ([{"type": "bytes", "logicalType": "decimal", "precision": 3, "scale": 1}, {"type": "fixed", "name": "Dec9", "size": 8, "logicalType": "decimal", "precision": 9, "scale": 1}],
     [decimal.Decimal("1.5"), decimal.Decimal("12345.5"), decimal.Decimal("-99.9"), decimal.Decimal("10")]),
    ([{"type": "fixed", "name": "Dec4", "size": 2, "logicalType": "decimal", "precision": 4, "scale": 0}, "null", {"type": "bytes", "logicalType": "decimal", "precision": 12, "scale": 2}],
     [decimal.Decimal("123"), decimal.Decimal("1.25"), decimal.Decimal("1234567"), None, decimal.Decimal("-9999")]),
    ({"type": "record", "name": "L", "fields": [{"name": "when", "type": ["null", {"type": "long", "logicalType": "timestamp-millis"}], "default": None},
                                                {"name": "id", "type": [{"type": "string", "logicalType": "uuid"}, "null"]}]},
     [{"when": dt.datetime(2001, 1, 1, tzinfo=UTC), "id": uuid.UUID(int=1)}, {"id": None}, {"when": None, "id": uuid.UUID(int=2**127)}]),
]

OPTS = [{}, {"return_named_type": True}, {"return_named_type": True, "return_named_type_override": True},
        {"return_record_name": True}, {"return_record_name": True, "return_record_name_override": True}]


def has_logical(js):
    if isinstance(js, dict):
        return "logicalType" in js or any(has_logical(v) for v in js.values())
    if isinstance(js, list):
        return any(has_logical(v) for v in js)
    return False


def first_hint_path(d, path=()):
    if isinstance(d, tuple) and len(d) == 2 and isinstance(d[0], str):
        return path
    if isinstance(d, dict):
        for k, v in d.items():
            p = first_hint_path(v, path + (k,))
            if p is not None:
                return p
    elif isinstance(d, (list, tuple)):
        for i, v in enumerate(d):
            p = first_hint_path(v, path + (i,))
            if p is not None:
                return p
    return None


def type_key_paths(node, table, d, tn, path=(), out=None):
    """Paths of the mappings that carry a '-type' key AT A UNION POSITION (elsewhere the key is not a hint)."""
    out = [] if out is None else out
    k = node["k"]
    if k == "ref":
        return type_key_paths(table[node["name"]], table, d, tn, path, out)
    if k == "array" and isinstance(d, (list, tuple)):
        for i, x in enumerate(d):
            type_key_paths(node["items"], table, x, tn, path + (i,), out)
    elif k == "map" and isinstance(d, dict):
        for key, v in d.items():
            type_key_paths(node["values"], table, v, tn, path + (key,), out)
    elif k == "record" and isinstance(d, dict):
        for f in node["fields"]:
            if f["name"] in d:
                type_key_paths(f["type"], table, d[f["name"]], tn, path + (f["name"],), out)
    elif k == "union":
        if isinstance(d, tuple) and tn and len(d) == 2:
            for b in node["branches"]:
                if M.branch_name(b, table) == d[0]:
                    type_key_paths(b, table, d[1], tn, path + (1,), out)
                    break
        else:
            if isinstance(d, dict) and "-type" in d:
                out.append(path)
            for b in node["branches"]:
                if S.conforms(b, table, d, tn):
                    type_key_paths(b, table, d, tn, path, out)
                    break
    return out


def replace_at(d, path, fn):
    if not path:
        return fn(d)
    if isinstance(d, dict):
        return {k: (replace_at(v, path[1:], fn) if k == path[0] else v) for k, v in d.items()}
    if isinstance(d, list):
        return [replace_at(v, path[1:], fn) if i == path[0] else v for i, v in enumerate(d)]
    if isinstance(d, tuple):
        return tuple(replace_at(v, path[1:], fn) if i == path[0] else v for i, v in enumerate(d))
    raise AssertionError


class C09(Check):
    pid = "C09"
    level = "exploration"
    rule = (
        "Generated union-rich schemas (up to 5 branches; primitive mixes, several records with overlapping optional "
        "fields, enums, fixed, by-name references, arrays, maps, nesting) x conforming data for a drawn branch, with no "
        "hint, (name,value) hints, '-type' hints, one deliberately wrong hint, disable_tuple_notation; plus a fixed family "
        "of unions with logical branches. The union indices found in fastavro's bytes by the reference decoder must equal "
        "the documented rule (vlib/ref/select.py) at EVERY union position of the datum; a wrong hint must raise; same bytes "
        "on repeated calls and for raw vs parsed; reading with return_named_type=True and writing the result back must give "
        "identical bytes; the (name,value) shape of results under the five reader option sets is compared with the "
        "documented rule. Non-trivial = datum conforming to >=2 branches of some union, a hint, or a float->double deferral."
    )
    assumptions = [
        "when a record branch and a non-record branch both conform the statement ranks neither: any conforming branch is accepted",
        "closure is asserted for data whose hints are on named branches only",
        "shape under return_record_name_override is not asserted for unions holding by-name references to enum or fixed types (documented approximation: such a reference is counted as a record by the single-record test)",
    ]
    required_labels = ["multi-conforming", "hint:tuple", "hint:-type", "hint:wrong", "hint:wrong:-type", "float-deferral", "record-tie", "closure", "shape:named", "shape:named-override-single", "shape:record-by-name", "shape:record-override-single", "logical-family", "logical-generated", "decimal-to-later-branch", "logical-by-name", "no-tuple-notation"]
    quick = (4000, 1)
    thorough = (10000, 16)

    def __init__(self):
        self.feat = gen.Features(hints=0.25, union_weight=14, union_max=5, branch_record_weight=12, field_overlap=True,
                                 default_prob=0.6, omit=0.5, big=False, exotic_seqs=False, extra_keys=0.0, max_depth=4, top_kinds=("union", "union", "record", "array", "map"))

    def selftest(self):
        B.selftest()

    def strategy(self, tier):
        feat = self.feat

        @st.composite
        def cases(draw):
            d = gen.D(draw)
            if d.p(0.06):
                i = d.i(len(LOGICAL_UNIONS))
                js, data = LOGICAL_UNIONS[i]
                return {"schema": js, "datum": d.choice(data), "parsed": d.p(0.4), "opts": 0, "tuple_notation": True, "wrong_hint": False}
            if d.p(0.12):
                return self.logical_union_case(d)
            if d.p(0.3):
                return self.overlap_case(d)
            ir, table, js = gen.build_schema(d, feat)
            gen.check_truth(ir, table, js)
            tn = not d.p(0.12)
            # with the notation disabled a tuple is an ordinary sequence: arrays are then also given as tuples
            f2 = feat if tn else gen.Features(**dict(feat.__dict__, hints=0.0, exotic_seqs=True, tuples_in_unions=True))
            dg = gen.DataGen(d, f2, table)
            datum = dg.gen(ir, 6)
            wrong = False
            if tn and d.p(0.15):
                p = first_hint_path(datum)
                pts = type_key_paths(ir, table, datum, tn)
                pt = pts[0] if pts else None
                if pt is not None and (p is None or d.p(0.5)):
                    datum = replace_at(datum, pt, lambda m: dict(m, **{"-type": d.choice(["Nope", "record", "ns.Missing", ""])}))
                    wrong = "-type"
                elif p is not None:
                    datum = replace_at(datum, p, lambda h: (d.choice(["nope", "Int", "record", "ns.Missing", ""]), h[1]))
                    wrong = True
            return {"schema": js, "datum": datum, "parsed": d.p(0.4), "opts": d.i(len(OPTS)), "tuple_notation": tn, "wrong_hint": wrong}

        return cases()

    def logical_union_case(self, d):
        return logicalcase.logical_union_case(d)

    def overlap_case(self, d):
        """Union of records with overlapping optional fields and numeric primitives in a drawn order."""
        pool = ["a", "b", "c", "d"]
        ftypes = ["int", ["null", "int"], "string", ["null", "string"], "double", {"type": "array", "items": "int"}]
        fixed_type = {n: d.choice(ftypes[:4]) for n in pool}  # same name -> same type, so data can conform to several records
        branches = []
        nrec = d.rng(2, 4)
        for j in range(nrec):
            names = [n for n in pool if d.p(0.6)] or [d.choice(pool)]
            fields = []
            all_default = d.p(0.3)
            for n in names:
                t = fixed_type[n]
                fl = {"name": n, "type": t}
                w = 0 if all_default else d.i(3)
                if w == 0:
                    fl["default"] = None if isinstance(t, list) else (0 if t == "int" else "")
                fields.append(fl)
            rec = {"type": "record", "name": f"R{j}", "fields": fields}
            if d.p(0.3):
                rec["namespace"] = "ov"
            branches.append(rec)
        prims = [p for p in ["float", "int", "double", "long", "null", "string", {"type": "map", "values": "int"}] if d.p(0.4)]
        for p in prims:
            branches.insert(d.i(len(branches) + 1), p)
        by_ref = d.p(0.3)
        if by_ref:
            # define the records first in a wrapper record, refer to them by name in the union
            defs = [b for b in branches if isinstance(b, dict) and b.get("type") == "record"]
            names = {b["name"]: ((b.get("namespace") + ".") if b.get("namespace") else "") + b["name"] for b in defs}
            union = [names[b["name"]] if (isinstance(b, dict) and b.get("type") == "record") else b for b in branches]
            js = {"type": "record", "name": "Holder", "fields": [{"name": f"def{i}", "type": ["null", b], "default": None} for i, b in enumerate(defs)] + [{"name": "u", "type": union}]}
        else:
            js = branches
        # datum: subset of keys with conforming values, or a number
        w = d.i(10)
        if w < 7:
            val = {}
            sparse = d.p(0.25)
            for n in pool:
                if d.p(0.1 if sparse else 0.5):
                    t = fixed_type[n]
                    base = t[1] if isinstance(t, list) else t
                    val[n] = None if (isinstance(t, list) and d.p(0.3)) else (d.choice([0, 1, -5]) if base == "int" else d.choice(["", "s"]))
        elif w < 9:
            val = d.choice([0, 1, 2**31, 1.5, -0.0, 2**40])
        else:
            val = d.choice([None, "txt", {"k": 1}])
        datum = {"u": val} if by_ref else val
        return {"schema": js, "datum": datum, "parsed": d.p(0.4), "opts": d.i(len(OPTS)), "tuple_notation": True, "wrong_hint": False, "may_not_conform": True}

    def fixed_cases(self, tier):
        two = [{"type": "record", "name": "Created", "fields": [{"name": "id", "type": "int"}, {"name": "note", "type": ["null", "string"], "default": None}]},
               {"type": "record", "name": "Deleted", "fields": [{"name": "id", "type": "int"}, {"name": "reason", "type": ["null", "string"], "default": None}]}]
        base = {"parsed": False, "opts": 0, "tuple_notation": True, "wrong_hint": False}
        yield dict(base, schema=["null"] + two, datum={"id": 7})
        yield dict(base, schema=["null"] + two, datum={"id": 7, "reason": "x"})
        yield dict(base, schema=["float", "int", "double"], datum=5)
        # a mapping that shares no field name with the record it conforms to
        yield dict(base, schema=["null", {"type": "record", "name": "AllDef", "fields": [{"name": "a", "type": "int", "default": 0}]}], datum={})
        yield dict(base, schema=["string", {"type": "record", "name": "NoFields", "fields": []}], datum={})
        yield dict(base, schema=[{"type": "record", "name": "Opt", "fields": [{"name": "a", "type": ["null", "int"]}]}, "int"], datum={"unrelated": 1})
        yield dict(base, schema=["float", "double"], datum=("float", 1.5))
        yield dict(base, schema=["null"] + two, datum={"id": 7, "-type": "Deleted"})
        yield dict(base, schema=["null"] + two, datum={"id": 7, "-type": "Nope"}, wrong_hint="-type")
        for js, data in LOGICAL_UNIONS:
            for x in data:
                yield dict(base, schema=js, datum=x)
        # hints are full names: a namespaced branch that shares its unqualified name with a later null-namespace branch
        # must not capture the hint meant for the latter (records, enums, fixed; raw and parsed)
        pts = [{"type": "record", "name": "v1.Point", "fields": [{"name": "x", "type": "int"}, {"name": "y", "type": "int"}]},
               {"type": "record", "name": "Point", "fields": [{"name": "x", "type": "int"}, {"name": "y", "type": "int"}, {"name": "z", "type": "int", "default": 0}]}]
        ens = ["null", {"type": "enum", "name": "ns.Level", "symbols": ["LOW", "HIGH"]}, {"type": "enum", "name": "Level", "symbols": ["HIGH", "LOW"]},
               {"type": "fixed", "name": "deep.ns.Id", "size": 2}, {"type": "fixed", "name": "Id", "size": 2}]
        for parsed in (False, True):
            for dv in (("Point", {"x": 1, "y": 2, "z": 3}), ("v1.Point", {"x": 4, "y": 5}), ("Point", {"x": 6, "y": 7}), {"x": 1, "y": 2, "z": 3, "-type": "Point"}):
                yield dict(base, schema=pts, datum=dv, parsed=parsed)
            for dv in (("Level", "HIGH"), ("ns.Level", "HIGH"), ("Id", b"ab"), ("deep.ns.Id", b"cd"), ("Level", "LOW")):
                for opts in (0, 1):
                    yield dict(base, schema=ens, datum=dv, parsed=parsed, opts=opts)
        # a union whose only named branch is given BY NAME, under every reader option set
        byname = {"type": "record", "name": "Holder", "fields": [
            {"name": "e", "type": {"type": "enum", "name": "E", "symbols": ["A", "B"]}}, {"name": "f", "type": {"type": "fixed", "name": "F", "size": 1}},
            {"name": "r", "type": {"type": "record", "name": "R", "fields": [{"name": "x", "type": "int"}]}},
            {"name": "ue", "type": ["null", "E"]}, {"name": "uf", "type": ["F", "string"]}, {"name": "ur", "type": ["null", "R", "int"]}, {"name": "uer", "type": ["E", "R"]}]}
        for opts in range(len(OPTS)):
            yield dict(base, schema=byname, datum={"e": "A", "f": b"x", "r": {"x": 1}, "ue": "B", "uf": b"y", "ur": {"x": 2}, "uer": "A"}, opts=opts)
            yield dict(base, schema=byname, datum={"e": "A", "f": b"x", "r": {"x": 1}, "ue": None, "uf": "s", "ur": 5, "uer": {"x": 3}}, opts=opts, parsed=True)
        # branch positions that need a two-byte index
        big = ["null"] + [{"type": "record", "name": f"R{i}", "fields": [{"name": f"f{i}", "type": "int"}]} for i in range(1, 140)]
        for i in (1, 62, 63, 64, 65, 99, 127, 128, 139):
            yield dict(base, schema=big, datum={f"f{i}": i})
            yield dict(base, schema=big, datum=(f"R{i}", {f"f{i}": 0}), opts=1)
        # disable_tuple_notation: a 2-tuple that looks like a hint is array data
        sa = ["string", {"type": "array", "items": "string"}]
        yield dict(base, schema=sa, datum=("string", "x"), tuple_notation=False)
        yield dict(base, schema=sa, datum=("string", "x"))
        yield dict(base, schema=["null", {"type": "array", "items": ["int", "string"]}], datum=("int", 5), tuple_notation=False)
        yield dict(base, schema={"type": "record", "name": "TN", "fields": [{"name": "u", "type": ["null", "int", {"type": "array", "items": ["null", "string"]}]}]}, datum={"u": ("null", None)}, tuple_notation=False)
        yield dict(base, schema={"type": "map", "values": [{"type": "array", "items": "string"}, {"type": "enum", "name": "En", "symbols": ["a"]}]}, datum={"k": ("En", "a")}, tuple_notation=False)
        e2 = [{"type": "record", "name": "R", "fields": []}, {"type": "enum", "name": "E1", "symbols": ["A", "B"]}, {"type": "enum", "name": "E2", "symbols": ["B", "A"]},
              {"type": "fixed", "name": "F1", "size": 2}, {"type": "fixed", "name": "F2", "size": 2}]
        for opts in range(len(OPTS)):
            yield dict(base, schema=e2, datum=("E2", "A"), opts=opts)
            yield dict(base, schema=e2, datum=("F2", b"ab"), opts=opts)
            yield dict(base, schema=["null", {"type": "enum", "name": "Only", "symbols": ["x"]}], datum="x", opts=opts)

    # ------------------------------------------------------------------
    def _verify(self, node, table, d, it, tn, labels, js, is_default=False):
        k = node["k"]
        if k == "ref":
            return self._verify(table[node["name"]], table, d, it, tn, labels, js, is_default)
        if k == "array":
            for x in d:
                self._verify(node["items"], table, x, it, tn, labels, js)
        elif k == "map":
            for v in d.values():
                self._verify(node["values"], table, v, it, tn, labels, js)
        elif k == "record":
            if "-type" in d:
                labels.add("hint:-type")
            for f in node["fields"]:
                dflt = False
                if f["name"] in d:
                    v = d[f["name"]]
                elif "default" in f:
                    v = B.default_datum(f["type"], table, f["default"])
                    dflt = True
                else:
                    v = None
                self._verify(f["type"], table, v, it, tn, labels, js, dflt)
        elif k == "union":
            try:
                idx = next(it)
            except StopIteration:
                raise Violation("fewer-unions-than-datum", f"bytes hold fewer union indices than the datum has unions; schema={js!r:.300}")
            r = S.select(node, table, d, tn)
            if is_default and S.conforms(node["branches"][0], table, d, tn):
                # the value comes from the field's default: the specification assigns it to the FIRST branch (the selection
                # rule of the statement is about data the caller supplies)
                labels.add("default-of-union-field")
                if r != ("exact", 0):
                    labels.add("default-under-a-branch-the-selection-rule-would-not-take")
                r = ("exact", 0)
            names = [M.branch_name(b, table) for b in node["branches"]]
            if r[0] == "error":
                raise Violation("wrote-nonconforming", f"writer produced branch {idx} for {d!r:.100} although {r[1]}; union={names}")
            conf = [i for i, b in enumerate(node["branches"]) if S.conforms(b, table, d[1] if (isinstance(d, tuple) and tn) else d, tn)]
            if isinstance(d, tuple) and tn:
                labels.add("hint:tuple")
            elif len(conf) >= 2:
                labels.add("multi-conforming")
                ks = [M.deref(node["branches"][i], table)["k"] for i in conf]
                if ks.count("record") >= 2:
                    labels.add("record-multi")
                    keys = set(d)
                    shared = sorted((len(keys & {f["name"] for f in M.deref(node["branches"][i], table)["fields"]}) for i in conf if M.deref(node["branches"][i], table)["k"] == "record"), reverse=True)
                    if len(shared) >= 2 and shared[0] == shared[1]:
                        labels.add("record-tie")
                if ks and ks[0] == "float" and "double" in ks[1:] and r[0] == "exact":
                    labels.add("float-deferral")
            if isinstance(d, decimal.Decimal) and r[0] == "exact" and any(M.deref(b, table).get("logical", {}).get("type") == "decimal" for b in node["branches"][: r[1]]):
                labels.add("decimal-to-later-branch")
            if r[0] == "exact" and idx != r[1]:
                raise Violation(
                    "wrong-branch" + (":hint" if isinstance(d, tuple) and tn else ""),
                    f"writer chose branch {idx} ({names[idx] if 0 <= idx < len(names) else '?'}), documented rule gives {r[1]} ({names[r[1]]}) for datum {d!r:.150}; union branches={names} conforming={conf}; schema={js!r:.300}",
                )
            if r[0] == "any" and idx not in r[1]:
                raise Violation("wrong-branch:nonconforming", f"writer chose branch {idx} ({names[idx] if 0 <= idx < len(names) else '?'}) which the datum {d!r:.150} does not conform to; conforming={r[1]}")
            v = d[1] if (isinstance(d, tuple) and tn) else d
            self._verify(node["branches"][idx], table, v, it, tn, labels, js)

    def _hints_only_named(self, node, table, d, tn):
        """True iff every tuple hint in d sits on a named branch (closure precondition)."""
        k = node["k"]
        if k == "ref":
            return self._hints_only_named(table[node["name"]], table, d, tn)
        if k == "array":
            return all(self._hints_only_named(node["items"], table, x, tn) for x in d)
        if k == "map":
            return all(self._hints_only_named(node["values"], table, v, tn) for v in d.values())
        if k == "record":
            if "-type" in d:
                pass
            return all(self._hints_only_named(f["type"], table, d[f["name"]], tn) for f in node["fields"] if f["name"] in d)
        if k == "union":
            if isinstance(d, tuple) and tn:
                for b in node["branches"]:
                    if M.branch_name(b, table) == d[0]:
                        if M.deref(b, table)["k"] not in M.NAMED:
                            return False
                        return self._hints_only_named(b, table, d[1], tn)
                return True
            for b in node["branches"]:
                if S.conforms(b, table, d, tn):
                    if not self._hints_only_named(b, table, d, tn):
                        return False
            return True
        return True

    def _wrap(self, node, table, raw, it, opts, flags):
        k = node["k"]
        if k == "ref":
            return self._wrap(table[node["name"]], table, raw, it, opts, flags)
        if k == "array":
            return [self._wrap(node["items"], table, x, it, opts, flags) for x in raw]
        if k == "map":
            return {key: self._wrap(node["values"], table, v, it, opts, flags) for key, v in raw.items()}
        if k == "record":
            return {f["name"]: self._wrap(f["type"], table, raw[f["name"]], it, opts, flags) for f in node["fields"]}
        if k == "union":
            idx = next(it)
            b = node["branches"][idx]
            inner = self._wrap(b, table, raw, it, opts, flags)
            bk = M.deref(b, table)["k"]
            named = [x for x in node["branches"] if M.deref(x, table)["k"] in M.NAMED]
            refs = [x for x in node["branches"] if x["k"] == "ref"]
            inline_recs = [x for x in node["branches"] if x["k"] == "record"]
            name = M.branch_name(b, table)
            if opts.get("return_named_type_override") and len(named) == 1:
                flags.add("shape:named-override-single")
                return inner
            if opts.get("return_named_type"):
                if bk in M.NAMED:
                    flags.add("shape:named")
                    return (name, inner)
                return inner
            if opts.get("return_record_name") or opts.get("return_record_name_override"):
                if opts.get("return_record_name_override") and any(M.deref(x, table)["k"] != "record" for x in refs):
                    # the *_override test counts a by-name reference to an enum or fixed as a record by design: not asserted
                    flags.add("approx")
                    return inner
                if refs:
                    flags.add("shape:record-by-name")
                if opts.get("return_record_name_override") and len(inline_recs) + len([x for x in refs if M.deref(x, table)["k"] == "record"]) == 1 and not any(M.deref(x, table)["k"] != "record" for x in refs):
                    flags.add("shape:record-override-single")
                    return inner
                if opts.get("return_record_name") and bk == "record":
                    flags.add("shape:record")
                    return (name, inner)
            return inner
        return raw

    def run_case(self, case):
        js = case["schema"]
        node, table = M.resolve(js)
        tn = case.get("tuple_notation", True)
        labels = set()
        if not tn:
            labels.add("no-tuple-notation")
        logical = has_logical(js)
        if logical:
            labels.add("logical-family")
        schema = bincase.fa_schema(fastavro, case)
        datum = case["datum"]
        kw = {} if tn else {"disable_tuple_notation": True}

        def write(s):
            fo = io.BytesIO()
            fastavro.schemaless_writer(fo, s, datum, **kw)
            return fo.getvalue()

        if case.get("wrong_hint"):
            labels.add("hint:wrong")
            if case["wrong_hint"] == "-type":
                labels.add("hint:wrong:-type")
            if not S.conforms(node, table, datum, tn):
                o = outcome(write, schema)
                if o[0] == "ok":
                    raise Violation("wrong-hint-accepted", f"a hint naming no branch was written without error: datum={datum!r:.200} schema={js!r:.300} bytes={o[1][:40].hex()}")
                return labels
            # the wrongly hinted part still conforms elsewhere (e.g. as an extra key of another record branch):
            # the ordinary oracle applies
            labels.add("hint:wrong-but-conforming")
        if case.get("may_not_conform") and not S.conforms(node, table, datum, tn):
            labels.add("overlap:nonconforming")
            o = outcome(write, schema)
            if o[0] == "ok":
                raise Violation("nonconforming-written", f"datum {datum!r:.150} conforms to no branch but was written as {o[1][:30].hex()}; schema={js!r:.300}")
            return labels
        if case.get("by_name_logical"):
            labels.add("logical-by-name")
        if case.get("logical_generated"):
            labels.add("logical-generated")
        elif case.get("may_not_conform"):
            labels.add("overlap-family")
        blob = guard("write-conforming", write, schema)
        # determinism: repeated call, other schema form
        if guard("write-conforming", write, schema) != blob:
            raise Violation("nondeterministic", "two identical calls produced different bytes")
        other = js if case.get("parsed") else guard("parse-valid-schema", fastavro.parse_schema, js)
        if guard("write-conforming", write, other) != blob:
            raise Violation("form-dependent-choice", f"raw and parsed schema give different bytes for datum {datum!r:.150}; schema={js!r:.300}")
        # choices at every union position
        try:
            trace, raw, pos = bincase.trace_of(node, table, blob)
        except B.RefError as e:
            raise Violation("not-a-spec-encoding", f"independent decoder rejects writer output: {e}")
        if pos != len(blob):
            raise Violation("not-a-spec-encoding", "trailing bytes")
        it = iter(trace)
        self._verify(node, table, datum, it, tn, labels, js)
        if next(it, None) is not None:
            raise Violation("more-unions-than-datum", "bytes hold more union indices than the datum has unions")
        # closure under return_named_type
        back = guard("read-own-output", fastavro.schemaless_reader, io.BytesIO(blob), schema, return_named_type=True)
        if "default-under-a-branch-the-selection-rule-would-not-take" in labels:
            # the read-back value of an omitted field is ordinary caller data when written again: it may take another branch
            labels.add("closure-skipped:default-of-union-field")
        elif case.get("raw"):
            # a raw value (bytes, int, str) written under a logical branch comes back as the logical Python type, i.e. as
            # a different datum, which may legitimately select another branch
            labels.add("closure-skipped:raw-under-logical")
        elif "bytearray(" in repr(datum):
            # a bytearray comes back as bytes, which (unlike the bytearray) also conforms to fixed branches: the re-written
            # value is a different datum, the statement only speaks about the pairs returned for named branches
            labels.add("closure-skipped:bytearray")
        elif self._hints_only_named(node, table, datum, tn) and tn:
            labels.add("closure")
            fo = io.BytesIO()
            guard("write-back-named-result", fastavro.schemaless_writer, fo, schema, back)
            if fo.getvalue() != blob:
                raise Violation("closure-broken", f"value read with return_named_type=True ({back!r:.200}) written back gives {fo.getvalue()[:40].hex()} instead of {blob[:40].hex()}; schema={js!r:.300}")
        # result shape under the reader options
        if not logical:
            opts = OPTS[case.get("opts", 0)]
            flags = set()
            expect = self._wrap(node, table, raw, iter(trace), opts, flags)
            got = guard("read-own-output", fastavro.schemaless_reader, io.BytesIO(blob), schema, **opts)
            if "approx" in flags:
                labels.add("shape-skipped:by-name-approximation")
            else:
                labels |= flags
                if not B.same(got, expect):
                    raise Violation("result-shape", f"reader options {opts} returned {got!r:.200}, documented shape {expect!r:.200}; schema={js!r:.300}")
        return labels

    def nontrivial(self, labels):
        return bool(labels & {"multi-conforming", "hint:tuple", "hint:-type", "hint:wrong", "hint:wrong:-type", "float-deferral"})


CHECK = C09()

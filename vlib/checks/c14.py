"""C14 - fingerprints equal the spec's CRC-64-AVRO and the named digests for every text."""
import hashlib

import fastavro
from fastavro.schema import fingerprint
from hypothesis import strategies as st

from .. import gen
from ..ref import canon, model as M
from ..runner import Check, Violation, guard, outcome

JAVA = {"MD5": "md5", "SHA-256": "sha256"}
# the standard names of java.security.MessageDigest (the library may come to advertise more of them than the two the statement
# lists; whatever it advertises must then be that digest)
JAVA_STANDARD = {"MD5": "md5", "SHA-1": "sha1", "SHA-224": "sha224", "SHA-256": "sha256", "SHA-384": "sha384", "SHA-512": "sha512",
                 "SHA-512/224": "sha512_224", "SHA-512/256": "sha512_256", "SHA3-224": "sha3_224", "SHA3-256": "sha3_256", "SHA3-384": "sha3_384", "SHA3-512": "sha3_512"}
try:
    from fastavro._schema_common import FINGERPRINT_ALGORITHMS as _LIB_ADVERTISED
except Exception:  # noqa
    _LIB_ADVERTISED = ()
ADVERTISED = set(hashlib.algorithms_guaranteed) | set(JAVA) | {"CRC-64-AVRO"} | set(_LIB_ADVERTISED)
EXTRA_ADVERTISED = sorted(n for n in set(_LIB_ADVERTISED) - set(hashlib.algorithms_guaranteed) - set(JAVA) - {"CRC-64-AVRO"})
FIXED_LEN = sorted(a for a in hashlib.algorithms_guaranteed if not a.startswith("shake_"))
NEAR = ["", " ", "crc-64-avro", "CRC-64-AVRO ", "CRC64", "CRC-64", "crc-64-AVRO", "SHA256", "sha-256", "Sha-256", "SHA-1", "SHA1", "sha-1", "md-5", "Md5", "MD5 ", "mD5",
        "ripemd160", "sm3", "sha512_256", "sha512_224", "md5-sha1", "whirlpool", "md4", "UNKNOWN", "sha3-256", "SHA3_256", "blake2", "BLAKE2B", "sha257", "0", "None", "SHA-512", "SHA-384"]


class C14(Check):
    pid = "C14"
    level = "exploration"
    rule = (
        "Generated texts (Hypothesis text() incl. astral/NUL/long, canonical forms of generated schemas, fixed edge "
        "texts) x EVERY advertised fixed-length algorithm (hashlib.algorithms_guaranteed minus shake_*, 'MD5', 'SHA-256', "
        "'CRC-64-AVRO') per case, oracle = bitwise Rabin fingerprint (no table) as 16 hex digits little-endian / "
        "hashlib.new(name).hexdigest() of the UTF-8 bytes; plus unknown and near-miss algorithm names (case variants, "
        "names hashlib accepts but fastavro does not advertise) which must raise ValueError. The reference records which "
        "of the 256 table indices the running CRC state visited; all 256 must be covered. Non-trivial = non-empty text; "
        "distinct by digest of (text, unknown names)."
    )
    assumptions = ["shake_128/shake_256 are advertised but variable-length and outside the statement", "advertised set = hashlib.algorithms_guaranteed | {MD5, SHA-256, CRC-64-AVRO} | whatever else the library lists in FINGERPRINT_ALGORITHMS (Java standard names are checked against the digest they denote)"]
    required_labels = ["text:empty", "text:non-ascii", "text:canonical-form", "unknown-name", "hashlib-accepts-unadvertised", "crc-leading-zero-byte", "text:len>=65536", "text:not-NFC", "crc:all-256-table-indices-visited"]
    quick = (1500, 1)
    thorough = (20000, 16)

    def __init__(self):
        self.visited = set()

    def selftest(self):
        canon.selftest()

    def extra_coverage(self):
        return {"crc_table_indices_visited": len(self.visited)}

    def strategy(self, tier):
        feat = gen.Features(big=False)

        @st.composite
        def cases(draw):
            d = gen.D(draw)
            w = d.i(10)
            if w < 3:
                ir, table, js = gen.build_schema(d, feat)
                text = canon.canonical(ir)
                kind = "canonical-form"
            elif w < 8:
                text = draw(st.text(max_size=40))
                kind = "text"
            elif w < 9:
                text = draw(st.text(alphabet=st.characters(codec="utf-8"), min_size=100, max_size=400))
                kind = "text"
            elif w < 10 and d.p(0.5):
                # texts that Unicode normalisation would change: the digest is over the UTF-8 bytes as given
                pool = ["e\u0301", "a\u0307\u0323", "\u212b", "\u2126", "\u1112\u1161\u11ab", "\uf900", "\u00e9", "\ufb01", "\u0041\u030a", "x"]
                text = "".join(d.choice(pool) for _ in range(d.rng(1, 6)))
                kind = "text"
            else:
                text = "text-%d" % d.rng(0, 10**6)
                kind = "text"
            unk = [d.choice(NEAR)]
            if d.p(0.3):
                unk.append(draw(st.text(max_size=12)))
            return {"text": text, "kind": kind, "unknown": unk}

        return cases()

    def fixed_cases(self, tier):
        # lengths around every power of two up to 2^18 (hash block sizes, chunked feeding), ASCII and multi-byte
        for k in range(0, 19 if tier == "thorough" else 18):
            for dl in (-1, 0, 1):
                n = 2**k + dl
                if n <= 0:
                    continue
                yield {"text": "a" * n, "kind": "text", "unknown": []}
                if k in (6, 7, 12, 16, 17):
                    yield {"text": ("é" * n)[:n], "kind": "text", "unknown": []}
        for n in (3 * 65536, 65536 + 64):
            yield {"text": "xyz" * (n // 3) + "x" * (n % 3), "kind": "text", "unknown": []}
        yield {"text": "", "kind": "text", "unknown": NEAR}
        for t in ("e\u0301", "\u212b\u2126", "\u1112\u1161\u11ab", "\uf900", '{"name":"caf\u0065\u0301","type":"fixed","size":1}'):
            yield {"text": t, "kind": "text", "unknown": []}
        yield {"text": '"int"', "kind": "canonical-form", "unknown": []}
        # texts whose CRC has a zero high byte (hex must still be 16 digits): search deterministically
        found = 0
        i = 0
        while found < 3 and i < 200000:
            t = "text-%d" % i
            if canon.rabin(t.encode()) < 2**56:
                yield {"text": t, "kind": "text", "unknown": []}
                found += 1
            i += 1

    def run_case(self, case):
        text = case["text"]
        raw = text.encode("utf-8")
        labels = {"text:empty" if not text else "text:non-empty"}
        if case["kind"] == "canonical-form":
            labels.add("text:canonical-form")
        if len(raw) != len(text):
            labels.add("text:non-ascii")
        if len(text) >= 65536:
            labels.add("text:len>=65536")
        import unicodedata
        if unicodedata.normalize("NFC", text) != text:
            labels.add("text:not-NFC")
        want = canon.rabin_hex_le(raw, self.visited)
        if len(self.visited) == 256:
            labels.add("crc:all-256-table-indices-visited")
        if want.endswith("00"):
            labels.add("crc-leading-zero-byte")
        got = guard("fingerprint-crc", fingerprint, text, "CRC-64-AVRO")
        if got != want:
            raise Violation("crc-mismatch", f"fingerprint({text!r:.80}, 'CRC-64-AVRO') = {got!r}, specification gives {want!r}")
        if not text and got != canon.EMPTY64.to_bytes(8, "little").hex():
            raise Violation("crc-empty", f"empty text maps to {got!r}")
        for name in FIXED_LEN + list(JAVA):
            real = JAVA.get(name, name)
            want = hashlib.new(real, raw).hexdigest()
            got = guard("fingerprint-digest", fingerprint, text, name)
            if got != want:
                raise Violation("digest-mismatch:" + name, f"fingerprint({text!r:.80}, {name!r}) = {got!r}, hashlib gives {want!r}")
        for name in EXTRA_ADVERTISED:
            # a further name the library advertises: a Java spelling must be that digest; anything else cannot be decided
            real = JAVA_STANDARD.get(name, name if name in hashlib.algorithms_available else None)
            if real is not None and real.startswith("shake_"):
                continue  # variable length: outside the statement
            if real is None or real not in hashlib.algorithms_available:
                labels.add("advertised-name-without-reference")
                continue
            want = hashlib.new(real, raw).hexdigest()
            got = guard("fingerprint-digest", fingerprint, text, name)
            if got != want:
                raise Violation("digest-mismatch:" + name, f"fingerprint({text!r:.80}, {name!r}) = {got!r}, the {real} digest is {want!r}")
        for name in case["unknown"]:
            if name in ADVERTISED:
                continue
            labels.add("unknown-name")
            try:
                hashlib.new(name, b"")
                labels.add("hashlib-accepts-unadvertised")
            except Exception:
                pass
            o = outcome(fingerprint, text, name)
            if o[0] == "ok":
                raise Violation("unknown-algorithm-accepted", f"fingerprint(text, {name!r}) returned {o[1]!r} instead of raising ValueError")
            if not isinstance(o[1], ValueError):
                raise Violation("unknown-algorithm-wrong-error", f"fingerprint(text, {name!r}) raised {type(o[1]).__name__}: {o[1]}")
        return labels

    def nontrivial(self, labels):
        return "text:non-empty" in labels


CHECK = C14()

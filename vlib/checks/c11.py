"""C11 - parse_schema accepts valid schemas, names per spec, rejects ill-formed ones."""
import copy
import json

import fastavro
from fastavro.schema import parse_schema
from fastavro._schema_common import SchemaParseException, UnknownType
from hypothesis import strategies as st

from .. import gen
from ..ref import model as M
from ..ref import binary as B
from ..runner import Check, Violation, guard, outcome, HarnessError


def walk_json(js, ns="", path=(), out=None):
    """Collect schema positions: (path, json, enclosing_ns, kind)."""
    if out is None:
        out = []
    if isinstance(js, str):
        out.append((path, js, ns, "prim" if js in M.PRIMS else "ref"))
    elif isinstance(js, list):
        out.append((path, js, ns, "union"))
        for i, b in enumerate(js):
            walk_json(b, ns, path + (i,), out)
    else:
        t = js["type"]
        out.append((path, js, ns, t if t not in M.PRIMS else "prim"))
        if t == "array":
            walk_json(js["items"], ns, path + ("items",), out)
        elif t == "map":
            walk_json(js["values"], ns, path + ("values",), out)
        elif t == "record":
            tns, _ = M.full_name(js["name"], "namespace" in js, js.get("namespace"), ns)
            for i, f in enumerate(js["fields"]):
                walk_json(f["type"], tns, path + ("fields", i, "type"), out)
    return out


def get_at(js, path):
    for p in path:
        js = js[p]
    return js


def set_at(js, path, value):
    if not path:
        return value
    cur = js
    for p in path[:-1]:
        cur = cur[p]
    cur[path[-1]] = value
    return js


IMPOSSIBLE = object()
_POOL = [0, "x", None, True, [], {}, 1.5]


def wrong_default_for(d, node, table):
    """A JSON default whose JSON type cannot match `node` (any branch for unions); IMPOSSIBLE if none exists."""
    n = M.deref(node, table)
    kinds = [M.deref(b, table)["k"] for b in n["branches"]] if n["k"] == "union" else [n["k"]]
    ok = [v for v in _POOL if all(_json_mismatch(v, kk) for kk in kinds)]
    return d.choice(ok) if ok else IMPOSSIBLE


def _json_mismatch(v, k):
    """True iff JSON value v can never be a default of a schema of kind k."""
    if k == "null":
        return v is not None
    if k == "boolean":
        return not isinstance(v, bool)
    if k in ("int", "long"):
        return not (isinstance(v, int) and not isinstance(v, bool))
    if k in ("float", "double"):
        return not (isinstance(v, (int, float)) and not isinstance(v, bool))
    if k in ("string", "bytes", "fixed", "enum"):
        return not isinstance(v, str)
    if k == "array":
        return not isinstance(v, list)
    if k in ("map", "record"):
        return not isinstance(v, dict)
    raise AssertionError(k)


MUTATIONS = ["bad-default", "duplicate-name", "enum-default-outside", "bad-symbol", "dup-symbol", "missing-name", "bad-decimal", "undefined-ref"]


def strip_hints(x):
    if isinstance(x, dict):
        return {k: strip_hints(v) for k, v in x.items() if k not in ("__fastavro_parsed", "__named_schemas")}
    if isinstance(x, list):
        return [strip_hints(v) for v in x]
    return x


class C11(Check):
    pid = "C11"
    level = "exploration"
    rule = (
        "Generated valid schemas with every naming feature (nested namespaces, dotted names, explicit/inherited/empty "
        "namespace, short-name clashes across namespaces, references before/after nested definitions, recursion, attributes): "
        "parse must succeed and, walking the result against the construction truth, every named type carries the truth's "
        "full name, every reference string is the truth's full name, and the caller's named_schemas has exactly the full "
        "names as keys. Ill-formed: one drawn mutation of a valid schema at a drawn position (undefined reference; second "
        "definition of an existing full name through another spelling; named type without name; enum symbol malformed / "
        "duplicated / default outside symbols; field default of a JSON type that cannot match the field type - no branch for "
        "unions; decimal with negative or fractional precision/scale, scale>precision, precision beyond the fixed size): "
        "SchemaParseException or UnknownType must be raised. Non-trivial = a mutation applied, or a valid schema with a "
        "reference or namespace. Distinct by digest."
    )
    assumptions = ["JSON true/false are not numbers: a boolean default never matches int/long/float/double"]
    required_labels = ["valid", "valid:aliases", "valid:logical", "valid:decimal-edge", "valid:s:ref", "valid:s:recursive", "valid:s:short-name-clash"] + ["mut:" + m for m in MUTATIONS]
    quick = (6000, 1)
    thorough = (15000, 16)

    def __init__(self):
        self.feat = gen.Features(attrs=True, big=False, dict_prims=0.15, dict_null=True, bytes_defaults=True, int_float_defaults=True)

    def selftest(self):
        B.selftest()

    def strategy(self, tier):
        feat = self.feat

        @st.composite
        def cases(draw):
            d = gen.D(draw)
            ir, table, js = gen.build_schema(d, feat)
            gen.check_truth(ir, table, js)
            if d.p(0.45):
                if d.p(0.3):
                    # aliases (dotted, short, other namespace), logical annotations, fewer defaults: still valid
                    ir2, table2 = gen.cosmetic_variant(d, ir, table)
                    js = gen.Renderer(d, feat, table2).render(ir2, "")
                    gen.check_truth(ir2, table2, js)
                if d.p(0.3):
                    js = self.with_valid_decimal(d, js)
                return {"schema": js, "mutation": None}
            start = d.i(len(MUTATIONS))
            for j in range(len(MUTATIONS)):
                kind = MUTATIONS[(start + j) % len(MUTATIONS)]
                mutated = self.mutate(d, kind, js, ir, table)
                if mutated is not None:
                    return {"schema": mutated, "mutation": kind, "base": js}
            return {"schema": js, "mutation": None}

        return cases()

    def nest(self, d, t):
        """The offending type directly, or below array items / map values / a union branch (any depth up to 2)."""
        for _ in range(d.choice([0, 1, 2, 0, 1])):
            t = d.choice([{"type": "array", "items": t}, {"type": "map", "values": t}, ["null", t], [t, "string"]]) if not isinstance(t, list) else {"type": "array", "items": t}
        return t

    def with_valid_decimal(self, d, js):
        """A valid decimal annotation at the edges of what the specification allows (scale == precision, scale 0 or
        absent, the largest precision the fixed size can hold, precision 1) added as a record field, or on its own."""
        js = copy.deepcopy(js)
        which = d.choice(["bytes", "fixed"])
        dec = {"type": which, "logicalType": "decimal"}
        if which == "fixed":
            dec["name"] = "ValidDecimalFixed"
            dec["size"] = d.choice([1, 2, 4, 8, 16, 3])
            mx = len(str(2 ** (8 * dec["size"] - 1) - 1)) - 1
            dec["precision"] = d.choice([mx, 1, max(1, mx - 1)])
        else:
            dec["precision"] = d.choice([1, 2, 38, 1000])
        w = d.choice(["eq", "zero", "absent", "mid"])
        if w == "eq":
            dec["scale"] = dec["precision"]
        elif w == "zero":
            dec["scale"] = 0
        elif w == "mid":
            dec["scale"] = dec["precision"] // 2
        recs = [(p, s) for p, s, ns, k in walk_json(js) if k == "record"]
        if recs and "ValidDecimalFixed" not in repr(js):
            path, rec = d.choice(recs)
            rec["fields"].insert(d.i(len(rec["fields"]) + 1), {"name": "validdecimal", "type": dec})
            return js
        return dec if not recs else js

    def fixed_cases(self, tier):
        # a null-namespace type and a namespaced type share their unqualified name; an unqualified reference inside the
        # namespace denotes the namespaced one (records, enums, fixed; reference before / after both definitions; nested)
        for kind, extra in (("enum", {"symbols": ["A", "B"]}), ("fixed", {"size": 2}), ("record", {"fields": []})):
            top = dict({"type": kind, "name": "X"}, **extra)
            inner = dict({"type": kind, "name": "X", "namespace": "ns"}, **(dict(extra, symbols=["B", "A"]) if kind == "enum" else dict(extra, size=3) if kind == "fixed" else {"fields": [{"name": "q", "type": "int"}]}))
            yield {"schema": {"type": "record", "name": "Top", "fields": [
                {"name": "plain", "type": top},
                {"name": "holder", "type": {"type": "record", "name": "ns.Holder", "fields": [{"name": "own", "type": inner}, {"name": "again", "type": "X"}, {"name": "arr", "type": {"type": "array", "items": ["null", "X"]}},
                                                                                             {"name": "other", "type": ".X" if False else "ns.X"}]}},
                {"name": "outside", "type": "X"}]}, "mutation": None}
        yield {"schema": [{"type": "record", "name": "X", "fields": []}, {"type": "record", "name": "deep.ns.Y", "fields": [{"name": "x", "type": {"type": "fixed", "name": "X", "size": 1}}, {"name": "y", "type": {"type": "map", "values": "X"}}]}], "mutation": None}

    # ------------------------------------------------------------------ mutations
    def mutate(self, d, kind, js, ir, table):
        js = copy.deepcopy(js)
        pos = walk_json(js)
        if kind == "undefined-ref":
            path, sub, ns, k = d.choice(pos)
            cands = ["Nope", "un.defined.Name", "ns.Missing", "int2", "Strin"]
            # names that exist, but not from here: the unqualified part of a type living in another namespace, and an
            # existing unqualified name under a namespace that does not define it
            for full_ in table:
                tns_, short_ = M.split_full(full_)
                if tns_ != ns:
                    cands.append(short_)
                cands.append("other.ns." + short_)
                if tns_:
                    cands.append(tns_ + "x." + short_)
            cand = d.choice(cands[::-1][: 12] + cands[:5])
            full = cand if "." in cand else (ns + "." + cand if ns else cand)
            if full in table:
                return None
            if k == "union" and d.p(0.5):
                sub.append(cand)
                return js
            return set_at(js, path, cand)
        if kind == "duplicate-name":
            if not table:
                return None
            full = d.choice(list(table))
            tns, short = M.split_full(full)
            dup_kind = d.choice(["fixed", "enum", "record"])
            dup = {"type": dup_kind, "name": short, "namespace": tns}
            if tns and d.p(0.5):
                dup = {"type": dup_kind, "name": full}
            if dup_kind == "fixed":
                dup["size"] = 3
            elif dup_kind == "enum":
                dup["symbols"] = ["Q"]
            else:
                dup["fields"] = []
            recs = [(p, s) for p, s, ns, k in pos if k == "record"]
            if not recs:
                return [js, dup] if not isinstance(js, list) and (isinstance(js, str) or js.get("type") in ("array", "map")) is False and False else None
            path, rec = d.choice(recs)
            rec["fields"].insert(d.i(len(rec["fields"]) + 1), {"name": "dupfield", "type": self.nest(d, dup)})
            return js
        if kind == "missing-name":
            named = [(p, s) for p, s, ns, k in pos if k in ("record", "enum", "fixed") and isinstance(s, dict)]
            if not named:
                return None
            path, sub = d.choice(named)
            del sub["name"]
            return js
        if kind in ("bad-symbol", "dup-symbol", "enum-default-outside"):
            enums = [(p, s) for p, s, ns, k in pos if k == "enum" and isinstance(s, dict)]
            if not enums:
                return None
            path, sub = d.choice(enums)
            if kind == "bad-symbol":
                bad = d.choice(["A\n", "1a", "a-b", "", 5, "a b", "é", "a.b", None, "\nA", "A\r", "A ", " A", "A\n\n", "A\x00", "a$", "Ａ"])
                sub["symbols"].insert(d.i(len(sub["symbols"]) + 1), bad)
            elif kind == "dup-symbol":
                sub["symbols"].append(d.choice(sub["symbols"]))
            else:
                sub["default"] = d.choice(["NOT_A_SYMBOL", "a"]) if "a" not in sub["symbols"] else "NOT_A_SYMBOL"
            return js
        if kind == "bad-default":
            fields = []
            for p, s, ns, k in pos:
                if k == "record":
                    for i, f in enumerate(s["fields"]):
                        fields.append((p + ("fields", i), f))
            if not fields:
                return None
            path, f = d.choice(fields)
            # find the field's IR node through the resolver
            node, t2 = M.resolve(copy.deepcopy(js))
            irn = self._ir_at(node, t2, path)
            if irn is None:
                return None
            bad = wrong_default_for(d, irn, t2)
            if bad is IMPOSSIBLE:
                return None
            f["default"] = bad
            return js
        if kind == "bad-decimal":
            which = d.choice(["bytes", "fixed"])
            variant = d.choice(["neg-precision", "zero-precision", "frac-precision", "neg-scale", "frac-scale", "scale>precision", "precision>size", "str-precision"])
            if which == "bytes" and variant == "precision>size":
                which = "fixed"
            dec = {"type": which, "logicalType": "decimal", "precision": 4, "scale": 2}
            if which == "fixed":
                dec["name"] = "DecFixedQ"
                dec["size"] = d.choice([1, 2, 3, 5, 8, 10, 15])
                dec["precision"] = 2
                dec["scale"] = 1
            if variant == "neg-precision":
                dec["precision"] = -3
                dec["scale"] = 0
            elif variant == "zero-precision":
                dec["precision"] = -1  # (0 / -0.0 are numerically neither negative nor fractional: not asserted)
                dec.pop("scale")
            elif variant == "frac-precision":
                dec["precision"] = 2.5
                dec["scale"] = 0
            elif variant == "str-precision":
                dec["precision"] = "4"
                dec["scale"] = 0
            elif variant == "neg-scale":
                dec["scale"] = -1
            elif variant == "frac-scale":
                dec["scale"] = 0.5
            elif variant == "scale>precision":
                dec["scale"] = dec["precision"] + d.rng(1, 3)
            elif variant == "precision>size":
                import math
                mx = int(math.floor(math.log10(2) * (8 * dec["size"] - 1)))
                dec["precision"] = mx + d.rng(1, 2)
                dec["scale"] = 0
            recs = [(p, s) for p, s, ns, k in pos if k == "record"]
            if recs and d.p(0.7):
                path, rec = d.choice(recs)
                rec["fields"].insert(d.i(len(rec["fields"]) + 1), {"name": "decfield", "type": self.nest(d, dec)})
                return js
            return self.nest(d, dec)
        raise AssertionError(kind)

    def _ir_at(self, node, table, path):
        """IR node of the field at JSON path (.., 'fields', i)."""
        cur = node
        i = 0
        path = list(path)
        while i < len(path):
            p = path[i]
            cur = M.deref(cur, table) if cur["k"] == "ref" else cur
            if p == "fields":
                fld = cur["fields"][path[i + 1]]
                if i + 2 >= len(path):
                    return fld["type"]
                assert path[i + 2] == "type"
                cur = fld["type"]
                i += 3
            elif p == "items":
                cur = cur["items"]
                i += 1
            elif p == "values":
                cur = cur["values"]
                i += 1
            elif isinstance(p, int):
                cur = cur["branches"][p]
                i += 1
            else:
                return None
        return None

    # ------------------------------------------------------------------ oracle
    def run_case(self, case):
        js = case["schema"]
        mut = case.get("mutation")
        if mut is None:
            labels = {"valid"}
            if '"aliases": ["' in json.dumps(js):
                labels.add("valid:aliases")
            if "logicalType" in json.dumps(js):
                labels.add("valid:logical")
            if "validdecimal" in repr(js) or (isinstance(js, dict) and js.get("logicalType") == "decimal"):
                labels.add("valid:decimal-edge")
            node, table = M.resolve(js)
            for l in gen.schema_labels(node, table):
                labels.add("valid:" + l)
            ns = {}
            parsed = guard("parse-valid-schema", parse_schema, copy.deepcopy(js), ns)
            self._compare(parsed, node, table, js)
            if set(ns) != set(table):
                raise Violation("named-schemas-keys", f"named_schemas keys {sorted(ns)} != full names {sorted(table)}; schema={js!r:.400}")
            # the returned schema stands on its own: resolved independently (markers stripped) it defines the same full names
            try:
                _, back = M.resolve(strip_hints(copy.deepcopy(parsed)))
            except Exception as e:  # noqa
                raise Violation("parsed-output-not-a-schema", f"the independent resolver rejects parse_schema's output: {type(e).__name__}: {e}; schema={js!r:.400}")
            if set(back) != set(table):
                raise Violation("parsed-output-renames-types", f"parse_schema's output, read on its own, defines {sorted(back)} but the input defines {sorted(table)}; schema={js!r:.400}")
            # each name denotes the definition that carries it
            for full, truth in table.items():
                got = ns[full]
                gk = got.get("type") if isinstance(got, dict) else None
                if not isinstance(got, dict) or got.get("name") != full or gk != truth["k"]:
                    raise Violation("name-denotes-other-definition", f"named_schemas[{full!r}] is {got!r:.200}, the schema defines a {truth['k']} of that name; schema={js!r:.400}")
                if truth["k"] == "fixed" and got.get("size") != truth["size"]:
                    raise Violation("name-denotes-other-definition", f"named_schemas[{full!r}] has size {got.get('size')}, defined with {truth['size']}")
                if truth["k"] == "enum" and list(got.get("symbols", [])) != list(truth["symbols"]):
                    raise Violation("name-denotes-other-definition", f"named_schemas[{full!r}] has symbols {got.get('symbols')}, defined with {truth['symbols']}")
                if truth["k"] == "record" and [f["name"] for f in got.get("fields", [])] != [f["name"] for f in truth["fields"]]:
                    raise Violation("name-denotes-other-definition", f"named_schemas[{full!r}] has fields {[f['name'] for f in got.get('fields', [])]}, defined with {[f['name'] for f in truth['fields']]}")
            return labels
        labels = {"mut:" + mut}
        # the mutated schema must be ill-formed for the reference resolver too when the kind is about names
        o = outcome(parse_schema, copy.deepcopy(js))
        if o[0] == "ok":
            raise Violation("ill-formed-accepted:" + mut, f"parse_schema accepted a schema made ill-formed by '{mut}': {js!r:.600}")
        if not isinstance(o[1], (SchemaParseException, UnknownType)):
            raise Violation("ill-formed-wrong-error:" + mut + ":" + type(o[1]).__name__, f"'{mut}' raised {type(o[1]).__name__}: {str(o[1])[:200]} (expected SchemaParseException/UnknownType); schema={js!r:.500}")
        return labels

    def _compare(self, parsed, node, table, js):
        k = node["k"]
        if k in M.PRIMS:
            t = parsed if isinstance(parsed, str) else (parsed.get("type") if isinstance(parsed, dict) else None)
            if t != k:
                raise Violation("parsed-structure", f"expected primitive {k}, parsed has {parsed!r:.100}; schema={js!r:.300}")
        elif k == "ref":
            if parsed != node["name"]:
                raise Violation("reference-name", f"reference denotes {parsed!r}, specification gives {node['name']!r}; schema={js!r:.400}")
        elif k == "union":
            if not isinstance(parsed, list) or len(parsed) != len(node["branches"]):
                raise Violation("parsed-structure", f"union expected, got {parsed!r:.100}")
            for p, b in zip(parsed, node["branches"]):
                self._compare(p, b, table, js)
        elif k == "array":
            self._compare(parsed["items"], node["items"], table, js)
        elif k == "map":
            self._compare(parsed["values"], node["values"], table, js)
        else:
            if not isinstance(parsed, dict) or parsed.get("name") != node["name"]:
                raise Violation("full-name", f"named type carries {parsed.get('name') if isinstance(parsed, dict) else parsed!r}, specification gives {node['name']!r}; schema={js!r:.400}")
            if k == "record":
                if len(parsed["fields"]) != len(node["fields"]):
                    raise Violation("parsed-structure", "field count")
                for pf, nf in zip(parsed["fields"], node["fields"]):
                    if pf["name"] != nf["name"]:
                        raise Violation("parsed-structure", "field name")
                    self._compare(pf["type"], nf["type"], table, js)

    def nontrivial(self, labels):
        return bool(any(l.startswith("mut:") for l in labels) or labels & {"valid:s:ref", "valid:s:namespaced"})


CHECK = C11()

"""C04 - container files are self-describing and round-trip under every codec /
block size / stream kind."""
import copy
import hashlib
import io
import os
import tempfile

import fastavro

from .. import gen, concase
from ..ref import model as M
from ..ref import binary as B
from ..ref import container as RC
from ..ref import canon
from ..runner import Check, Violation, guard

short = concase.short


class C04(Check):
    pid = "C04"
    level = "exploration"
    rule = (
        "Hypothesis-generated (schema of any top-level kind, 0..70 conforming records, codec from the probed set, "
        "sync_interval around record/total sizes, compression level, marker, metadata, raw|parsed, stream kind in "
        "{BytesIO, real file, read-only sequential input, write-only non-seekable output}). reader(file) alone must yield "
        "the normalised records (normalisation from the branches found in the blocks by the independent container parser), "
        "report the canonical form of the supplied schema, the codec and every metadata pair; the same records written again "
        "with another interval+codec (re-using the caller's metadata dict) must read back identically; wrapper streams record any "
        "attribute other than read / write+flush+seekable. Non-trivial = >=2 blocks, codec != null, non-record top level, "
        "zero-byte records or a wrapper stream."
    )
    assumptions = ["codecs limited to those importable here (probe recorded in evidence)", "metadata keys starting with 'avro.' are reserved and not generated"]
    required_labels = ["blocks>=2", "codec:deflate", "codec:bzip2", "codec:xz", "stream:seq-in", "stream:wo-out", "stream:file", "zero-byte-records", "top:non-record", "records:0", "interval-exact", "two-readers-interleaved"]
    quick = (1500, 1)
    thorough = (4000, 16)

    def __init__(self):
        self.feat = gen.Features(big=False)
        self._tmp = None

    def selftest(self):
        B.selftest()
        canon.selftest()

    def extra_coverage(self):
        return {"codecs_usable": concase.usable_codecs(fastavro)}

    def strategy(self, tier):
        return concase.container_cases(self.feat, [c for c in concase.usable_codecs(fastavro) if c in concase.REF_CODECS])

    def fixed_cases(self, tier):
        base = {"codec": "null", "sync_interval": 1, "sync_interval2": 100, "codec2": "deflate", "level": None, "marker": None, "metadata": {}, "parsed": False, "stream": "bytesio"}
        yield dict(base, schema="null", records=[None] * 5)
        yield dict(base, schema={"type": "record", "name": "E", "fields": []}, records=[{}, {}, {}], stream="wo-out")
        yield dict(base, schema={"type": "record", "name": "R", "fields": [{"name": "a", "type": "long"}]}, records=[{"a": i} for i in range(300)], sync_interval=2, stream="seq-in")
        yield dict(base, schema="string", records=["abc", "defg"], sync_interval=4, codec="xz")  # first record exactly fills the interval
        yield dict(base, schema=["null", "int"], records=[], codec="bzip2")
        for codec in ("null", "deflate", "bzip2", "xz"):
            for level in (0, 1, 9, -1 if codec == "deflate" else 5):
                yield dict(base, schema="string", records=["abc" * 50, "d", ""], sync_interval=100, codec=codec, codec2=codec, level=level)
        # long-distance repetition inside one deflate block (back-references beyond 16 KiB)
        big = hashlib.shake_256(b"verif").digest(20000)
        yield dict(base, schema="bytes", records=[big, big, big], sync_interval=10**6, codec="deflate", codec2="deflate")
        yield dict(base, schema="bytes", records=[big, big, big], sync_interval=10**6, codec="deflate", codec2="deflate", level=9)

    def _write(self, case, schema, interval, codec, metadata, stream):
        kw = {"codec": codec, "sync_interval": interval, "metadata": metadata}
        if case.get("marker") is not None:
            kw["sync_marker"] = case["marker"]
        if case.get("level") is not None:
            # a level is accepted with every codec (codecs that cannot use a given value are expected to ignore it)
            kw["codec_compression_level"] = case["level"]
        recs = case["records"]
        if stream == "wo-out":
            fo = concase.WriteOnlyOut()
            fastavro.writer(fo, schema, recs, **kw)
            if fo.touched:
                raise Violation("writer-needs-more-than-write", f"writer touched {sorted(set(fo.touched))} on a write-only non-seekable output")
            if fo.delivered() != fo.getvalue():
                # the output buffers like a pipe or socket: what was not flushed when writer() returned never reaches the consumer
                raise Violation("writer-leaves-bytes-unflushed", f"writer() returned with {len(fo.getvalue()) - len(fo.delivered())} of {len(fo.getvalue())} bytes written but not flushed to the output (sync_interval={interval}, {len(recs)} records)")
            return fo.getvalue()
        if stream == "file":
            with tempfile.TemporaryDirectory(prefix="vc04") as td:
                p = os.path.join(td, "f.avro")
                with open(p, "wb") as fo:
                    fastavro.writer(fo, schema, recs, **kw)
                with open(p, "rb") as fo:
                    return fo.read()
        fo = io.BytesIO()
        fastavro.writer(fo, schema, recs, **kw)
        return fo.getvalue()

    def _read(self, data, stream):
        if stream == "seq-in":
            fo = concase.SeqIn(data)
        elif stream == "file":
            td = tempfile.TemporaryDirectory(prefix="vc04")
            p = os.path.join(td.name, "f.avro")
            with open(p, "wb") as f:
                f.write(data)
            fo = open(p, "rb")
        else:
            fo = io.BytesIO(data)
        try:
            rd = fastavro.reader(fo)
            recs = list(rd)
            info = (rd.writer_schema, rd.codec, dict(rd.metadata))
        finally:
            if stream == "file":
                fo.close()
                td.cleanup()
        if stream == "seq-in" and fo.touched:
            raise Violation("reader-needs-more-than-read", f"reader touched {sorted(set(fo.touched))} on a sequential input")
        return recs, info

    def run_case(self, case):
        js = case["schema"]
        node, table = M.resolve(js)
        labels = set()
        labels.add("top:record" if node["k"] == "record" else "top:non-record")
        labels.add("codec:" + case["codec"])
        labels.add("stream:" + case["stream"])
        labels.add("records:%s" % (len(case["records"]) if len(case["records"]) < 2 else "many"))
        schema = guard("parse-valid-schema", fastavro.parse_schema, js) if case.get("parsed") else js
        metadata = dict(case["metadata"])
        supplied = dict(metadata)
        data = guard("write-container", self._write, case, schema, case["sync_interval"], case["codec"], metadata, case["stream"])
        got, (wschema, codec, meta) = guard("read-container", self._read, data, case["stream"])

        # expected records
        try:
            pf = RC.parse(data)
            exp = concase.expected_records(node, table, case["records"], pf)
            nblocks = len(pf["blocks"])
            if nblocks >= 2:
                labels.add("blocks>=2")
            if any(len(b["data"]) == 0 and b["count"] > 0 for b in pf["blocks"]):
                labels.add("zero-byte-records")
            sizes = concase.sizes_of(node, table, case["records"])
            if sizes and any(sum(sizes[: i + 1]) == case["sync_interval"] for i in range(len(sizes))):
                labels.add("interval-exact")
        except (RC.ContainerError, B.RefError, B.NotConforming):
            labels.add("fallback-first-conforming")
            exp = concase.fallback_expected(node, table, case["records"])
        if len(got) != len(exp) or not all(B.same(g, e) for g, e in zip(got, exp)):
            i = next((j for j, (g, e) in enumerate(zip(got, exp)) if not B.same(g, e)), min(len(got), len(exp)))
            raise Violation(
                "container-roundtrip-mismatch",
                f"{len(got)} records read, {len(exp)} written; first difference at #{i}: got {short(got[i]) if i < len(got) else '<missing>'} expected {short(exp[i]) if i < len(exp) else '<none>'}; "
                f"codec={case['codec']} interval={case['sync_interval']} schema={js!r}",
            )
        # reported schema / codec / metadata
        cf = guard("canonical-form-of-reported-schema", fastavro.schema.to_parsing_canonical_form, wschema)
        if cf != canon.canonical(node):
            raise Violation("reported-schema-differs", f"reader reports schema with canonical form {cf!r:.300}, supplied schema has {canon.canonical(node)!r:.300}")
        try:
            rn, _ = M.resolve(copy.deepcopy(wschema))
            cf2 = canon.canonical(rn)
        except Exception as e:  # noqa: the reported schema must be a schema for an independent reader too
            raise Violation("reported-schema-not-a-schema", f"independent resolver rejects reader.writer_schema: {type(e).__name__}: {e}; {wschema!r:.300}")
        if cf2 != canon.canonical(node):
            raise Violation("reported-schema-differs", f"reader.writer_schema canonicalised independently gives {cf2!r:.300}, supplied schema has {canon.canonical(node)!r:.300}")
        if codec != case["codec"]:
            raise Violation("reported-codec-differs", f"reader reports codec {codec!r}, file was written with {case['codec']!r}")
        for k, v in supplied.items():
            if meta.get(k) != v:
                raise Violation("metadata-lost", f"metadata {k!r}: supplied {v!r}, reported {meta.get(k)!r}")

        # two readers alive at once: a second file defining the same type names differently must not disturb the first
        variant = gen.reversed_variant(js)
        if variant is not None:
            vdata = guard("write-container", self._write, case, variant, 1, "null", {}, "bytesio")
            r1 = guard("read-container", fastavro.reader, io.BytesIO(data))
            r2 = guard("read-container", fastavro.reader, io.BytesIO(vdata))
            got1, got2 = [], []
            it1, it2 = iter(r1), iter(r2)
            done1 = done2 = False
            END = object()
            while not (done1 and done2):
                if not done1:
                    v = guard("read-container", next, it1, END)
                    if v is END:
                        done1 = True
                    else:
                        got1.append(v)
                if not done2:
                    v = guard("read-container", next, it2, END)
                    if v is END:
                        done2 = True
                    else:
                        got2.append(v)
            labels.add("two-readers-interleaved")
            if len(got1) != len(exp) or not all(B.same(g, e) for g, e in zip(got1, exp)):
                raise Violation("reader-disturbed-by-other-reader", f"with a second reader (same type names, other definitions) alive, the file reads {short(got1)} instead of {short(exp)}; schema={js!r:.300}")
            if len(got2) != len(exp) or not all(B.same_by_value(g, e) for g, e in zip(got2, exp)):
                raise Violation("reader-disturbed-by-other-reader", f"the variant file reads {short(got2)} instead of {short(exp)}; variant={variant!r:.300}")

        # metamorphic: other grouping (and codec), re-using the caller's metadata dict object
        data2 = guard("write-container", self._write, case, schema, case["sync_interval2"], case["codec2"], metadata, "bytesio")
        got2, (_, codec2, _) = guard("read-container", self._read, data2, "bytesio")
        if codec2 != case["codec2"]:
            raise Violation("reported-codec-differs", f"second file written with {case['codec2']!r} (same metadata dict re-used) reports codec {codec2!r}")
        if len(got2) != len(got) or not all(B.same(a, b) for a, b in zip(got, got2)):
            raise Violation(
                "grouping-changes-records",
                f"records differ between interval {case['sync_interval']}/{case['codec']} and {case['sync_interval2']}/{case['codec2']}: {short(got)} vs {short(got2)}",
            )
        return labels

    def nontrivial(self, labels):
        return bool(
            labels & {"blocks>=2", "top:non-record", "zero-byte-records", "stream:seq-in", "stream:wo-out", "stream:file"}
            or any(l.startswith("codec:") and l != "codec:null" for l in labels)
        )


CHECK = C04()

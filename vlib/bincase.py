"""Shared pieces for the binary-codec checks (C01, C02, C03 ...)."""
import io

from hypothesis import strategies as st

from . import gen, tagged
from .ref import model as M
from .ref import binary as B
from .runner import Violation, guard, HarnessError


def binary_cases(feat, max_data=3, budget=6):
    @st.composite
    def cases(draw):
        d = gen.D(draw)
        ir, table, js = gen.build_schema(d, feat)
        gen.check_truth(ir, table, js)
        dg = gen.DataGen(d, feat, table)
        n = d.rng(1, max_data)
        data = [dg.gen(ir, budget) for _ in range(n)]
        return {"schema": js, "data": data, "parsed": d.p(0.4)}

    return cases()


def fa_schema(fastavro, case):
    js = case["schema"]
    if case.get("parsed"):
        return guard("parse-valid-schema", fastavro.parse_schema, js)
    return js


def trace_of(node, table, encoded):
    trace = []
    value, pos = B.decode(node, table, encoded, 0, trace)
    return trace, value, pos


def expected_for(node, table, datum, encoded, tuple_notation=True):
    """(reference bytes, normalised value) for the branches found in `encoded`."""
    trace, value, pos = trace_of(node, table, encoded)
    if pos != len(encoded):
        raise B.RefError("other", f"reference decoder consumed {pos} of {len(encoded)} bytes")
    picker = B.Picker(indices=trace)
    ref_bytes, norm = B.encode(node, table, datum, picker, tuple_notation)
    if picker.i != len(trace):
        raise B.NotConforming("writer emitted more unions than the datum has")
    return ref_bytes, norm, value

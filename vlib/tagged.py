"""JSON-safe, loss-free (de)serialisation of cases.

Python values that JSON cannot carry are written as one-key objects whose key
starts with ``$``.  Floats are stored by bit pattern so NaN payloads and the
sign of zero survive; dicts with non-string keys or keys starting with ``$``
are stored as pair lists.
"""
import collections
import datetime
import decimal
import json
import struct
import uuid
import hashlib
import array as _array


class UserSeq(collections.abc.Sequence):
    """A non-list, non-tuple, non-string sequence used as array data."""

    def __init__(self, items):
        self._items = list(items)

    def __getitem__(self, i):
        return self._items[i]

    def __len__(self):
        return len(self._items)

    def __eq__(self, other):
        return isinstance(other, UserSeq) and other._items == self._items

    def __repr__(self):
        return f"UserSeq({self._items!r})"


class UserMap(collections.abc.Mapping):
    """A Mapping that is not a dict (record / map data may be any Mapping)."""

    def __init__(self, items):
        self._d = dict(items)

    def __getitem__(self, k):
        return self._d[k]

    def __iter__(self):
        return iter(self._d)

    def __len__(self):
        return len(self._d)

    def __repr__(self):
        return f"UserMap({self._d!r})"


def _fbits(x):
    return "%016x" % struct.unpack(">Q", struct.pack(">d", x))[0]


def _ffrom(s):
    return struct.unpack(">d", struct.pack(">Q", int(s, 16)))[0]


def enc(v):
    if v is None or isinstance(v, (bool, str)):
        return v
    if isinstance(v, int):
        return v
    if isinstance(v, float):
        return {"$f": _fbits(v), "~": repr(v)}
    if isinstance(v, bytes):
        return {"$b": v.hex()}
    if isinstance(v, bytearray):
        return {"$ba": bytes(v).hex()}
    if isinstance(v, tuple):
        return {"$t": [enc(x) for x in v]}
    if isinstance(v, list):
        return [enc(x) for x in v]
    if isinstance(v, dict):
        if all(isinstance(k, str) and not k.startswith("$") for k in v):
            return {k: enc(x) for k, x in v.items()}
        return {"$d": [[enc(k), enc(x)] for k, x in v.items()]}
    if isinstance(v, UserSeq):
        return {"$useq": [enc(x) for x in v]}
    if isinstance(v, UserMap):
        return {"$umap": [[enc(k), enc(x)] for k, x in v.items()]}
    if isinstance(v, decimal.Decimal):
        return {"$dec": str(v)}
    if isinstance(v, datetime.datetime):
        off = None
        if v.tzinfo is not None:
            d = v.utcoffset()
            off = d.days * 86400 * 10**6 + d.seconds * 10**6 + d.microseconds
        return {"$dt": [v.year, v.month, v.day, v.hour, v.minute, v.second, v.microsecond, off, v.fold]}
    if isinstance(v, datetime.date):
        return {"$date": [v.year, v.month, v.day]}
    if isinstance(v, datetime.time):
        return {"$time": [v.hour, v.minute, v.second, v.microsecond]}
    if isinstance(v, uuid.UUID):
        return {"$uuid": str(v)}
    if isinstance(v, _array.array):
        return {"$arr": [v.typecode, [enc(x) for x in v]]}
    if isinstance(v, (set, frozenset)):
        return {"$set": sorted((enc(x) for x in v), key=lambda e: json.dumps(e, sort_keys=True))}
    if isinstance(v, BaseException):
        return {"$exc": type(v).__name__, "msg": str(v)[:300]}
    return {"$repr": repr(v)[:300]}


def dec(v):
    if isinstance(v, list):
        return [dec(x) for x in v]
    if isinstance(v, dict):
        if len(v) <= 2 and any(k.startswith("$") for k in v):
            if "$f" in v:
                return _ffrom(v["$f"])
            if "$b" in v:
                return bytes.fromhex(v["$b"])
            if "$ba" in v:
                return bytearray(bytes.fromhex(v["$ba"]))
            if "$t" in v:
                return tuple(dec(x) for x in v["$t"])
            if "$d" in v:
                return {_hashable(dec(k)): dec(x) for k, x in v["$d"]}
            if "$useq" in v:
                return UserSeq(dec(x) for x in v["$useq"])
            if "$umap" in v:
                return UserMap((_hashable(dec(k)), dec(x)) for k, x in v["$umap"])
            if "$dec" in v:
                return decimal.Decimal(v["$dec"])
            if "$dt" in v:
                y, mo, d, h, mi, s, us, off, fold = v["$dt"]
                tz = None
                if off is not None:
                    tz = datetime.timezone(datetime.timedelta(microseconds=off))
                return datetime.datetime(y, mo, d, h, mi, s, us, tzinfo=tz, fold=fold)
            if "$date" in v:
                return datetime.date(*v["$date"])
            if "$time" in v:
                return datetime.time(*v["$time"])
            if "$uuid" in v:
                return uuid.UUID(v["$uuid"])
            if "$arr" in v:
                return _array.array(v["$arr"][0], [dec(x) for x in v["$arr"][1]])
            if "$set" in v:
                return set(_hashable(dec(x)) for x in v["$set"])
            if "$repr" in v or "$exc" in v:
                return v
        return {k: dec(x) for k, x in v.items()}
    return v


def _hashable(x):
    if isinstance(x, list):
        return tuple(_hashable(i) for i in x)
    return x


def dumps(v, **kw):
    return json.dumps(enc(v), ensure_ascii=True, **kw)


def loads(s):
    return dec(json.loads(s))


def digest(v):
    return hashlib.sha1(json.dumps(enc(v), ensure_ascii=True, sort_keys=False).encode()).hexdigest()[:16]


def truncate(e, limit=1500):
    """Shorten an encoded sample for the evidence file."""
    s = json.dumps(e, ensure_ascii=True)
    if len(s) <= limit:
        return e
    return {"$truncated": s[:limit], "len": len(s)}

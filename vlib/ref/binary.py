"""Independent Avro binary encoder / strict decoder, conformance predicate and
the documented normalisation, written from the specification text.

Nothing here imports fastavro."""
import collections.abc as cabc
import array as _array
import struct

from .model import PRIMS, NAMED, deref, branch_name

INT_MIN, INT_MAX = -(2**31), 2**31 - 1
LONG_MIN, LONG_MAX = -(2**63), 2**63 - 1
F32_MAX = (2 - 2**-23) * 2.0**127


class RefError(Exception):
    """The reference cannot process this (kind: eof | index | other)."""

    def __init__(self, kind, msg=""):
        self.kind = kind
        super().__init__(f"{kind}: {msg}")


class NotConforming(Exception):
    pass


# ----------------------------------------------------------------------------- primitives
def zigzag(n):
    return 2 * n if n >= 0 else -2 * n - 1


def unzigzag(u):
    return u // 2 if u % 2 == 0 else -(u + 1) // 2


def enc_long(n, out):
    u = zigzag(n)
    while True:
        u, low = divmod(u, 128)
        if u:
            out.append(low + 128)
        else:
            out.append(low)
            return


def varint_len(n):
    u = zigzag(n)
    k = 1
    while u >= 128:
        u //= 128
        k += 1
    return k


def dec_long(buf, pos):
    u = 0
    mult = 1
    k = 0
    while True:
        if pos >= len(buf):
            raise RefError("eof", "varint")
        b = buf[pos]
        pos += 1
        u += (b % 128) * mult
        mult *= 128
        k += 1
        if b < 128:
            break
        if k > 10:
            raise RefError("other", "varint longer than 10 bytes")
    return unzigzag(u), pos


def f32_round(x):
    """Nearest IEEE single to x, as a Python float."""
    x = float(x)
    return struct.unpack(">f", struct.pack(">f", x))[0]


def enc_float(x, out):
    bits = struct.unpack(">I", struct.pack(">f", float(x)))[0]
    out += bits.to_bytes(4, "little")


def enc_double(x, out):
    bits = struct.unpack(">Q", struct.pack(">d", float(x)))[0]
    out += bits.to_bytes(8, "little")


def dec_float(buf, pos):
    if pos + 4 > len(buf):
        raise RefError("eof", "float")
    bits = int.from_bytes(buf[pos : pos + 4], "little")
    return struct.unpack(">f", bits.to_bytes(4, "big"))[0], pos + 4


def dec_double(buf, pos):
    if pos + 8 > len(buf):
        raise RefError("eof", "double")
    bits = int.from_bytes(buf[pos : pos + 8], "little")
    return struct.unpack(">d", bits.to_bytes(8, "big"))[0], pos + 8


# ----------------------------------------------------------------------------- conformance
def is_seq(d):
    return isinstance(d, (cabc.Sequence, _array.array)) and not isinstance(d, str)


def float_fits(x, kind):
    """Representable-in-width precondition for float-typed leaves."""
    try:
        f = float(x)
    except OverflowError:
        return False
    if kind == "float" and f == f and abs(f) != float("inf") and abs(f) > F32_MAX:
        return False
    return True


def conforms(node, table, d, tuple_notation=True, strict=False, _depth=0, hook=None):
    """Documented Python mapping (see property C10).  hook(node, d) may answer True/False for a node (logical types:
    vlib/ref/select.py) or None to let the base type decide."""
    if hook is not None and node["k"] != "ref":
        h = hook(node, d)
        if h is not None:
            return h
    k = node["k"]
    if k == "ref":
        return conforms(table[node["name"]], table, d, tuple_notation, strict, _depth, hook)
    if k == "null":
        return d is None
    if k == "boolean":
        return isinstance(d, bool)
    if k == "int":
        return isinstance(d, int) and not isinstance(d, bool) and INT_MIN <= d <= INT_MAX
    if k == "long":
        return isinstance(d, int) and not isinstance(d, bool) and LONG_MIN <= d <= LONG_MAX
    if k in ("float", "double"):
        return isinstance(d, (int, float)) and not isinstance(d, bool)
    if k == "bytes":
        return isinstance(d, (bytes, bytearray))
    if k == "string":
        return isinstance(d, str)
    if k == "fixed":
        return isinstance(d, bytes) and len(d) == node["size"]
    if k == "enum":
        return isinstance(d, str) and d in node["symbols"]
    if k == "array":
        return is_seq(d) and all(conforms(node["items"], table, x, tuple_notation, strict, _depth + 1, hook) for x in d)
    if k == "map":
        return (
            isinstance(d, cabc.Mapping)
            and all(isinstance(key, str) for key in d)
            and all(conforms(node["values"], table, v, tuple_notation, strict, _depth + 1, hook) for v in d.values())
        )
    if k == "record":
        if not isinstance(d, cabc.Mapping):
            return False
        if "-type" in d and d["-type"] != node["name"]:
            return False
        for f in node["fields"]:
            if f["name"] in d:
                if not conforms(f["type"], table, d[f["name"]], tuple_notation, strict, _depth + 1, hook):
                    return False
            elif "default" in f:
                continue
            else:
                if strict:
                    return False
                if not conforms(f["type"], table, None, tuple_notation, strict, _depth + 1, hook):
                    return False
        return True
    if k == "union":
        if isinstance(d, tuple) and tuple_notation:
            if len(d) != 2:
                return False
            name, v = d
            for b in node["branches"]:
                if branch_name(b, table) == name:
                    return conforms(b, table, v, tuple_notation, strict, _depth + 1, hook)
            return False
        return any(conforms(b, table, d, tuple_notation, strict, _depth + 1, hook) for b in node["branches"])
    raise RefError("other", f"kind {k}")


# ----------------------------------------------------------------------------- defaults
def default_datum(node, table, dj):
    """Python datum denoted by a JSON default (spec: 'default' attribute table)."""
    n = deref(node, table)
    k = n["k"]
    if k == "union":
        return default_datum(n["branches"][0], table, dj)
    if k in ("null", "boolean", "int", "long", "string", "enum"):
        return dj
    if k in ("float", "double"):
        return float(dj)
    if k in ("bytes", "fixed"):
        return bytes(ord(c) for c in dj) if isinstance(dj, str) else dj
    if k == "array":
        return [default_datum(n["items"], table, x) for x in dj]
    if k == "map":
        return {key: default_datum(n["values"], table, v) for key, v in dj.items()}
    if k == "record":
        out = {}
        for f in n["fields"]:
            if f["name"] in dj:
                out[f["name"]] = default_datum(f["type"], table, dj[f["name"]])
            elif "default" in f:
                out[f["name"]] = default_datum(f["type"], table, f["default"])
        return out
    raise RefError("other", k)


# ----------------------------------------------------------------------------- encoder + normaliser
class Picker:
    """Supplies the union branch for each union met during the walk.

    trace mode: indices recorded by the reference decoder from fastavro's bytes.
    """

    def __init__(self, indices=None, fn=None):
        self.indices = list(indices) if indices is not None else None
        self.i = 0
        self.fn = fn

    def pick(self, node, table, datum, tuple_notation):
        if self.indices is not None:
            if self.i >= len(self.indices):
                raise NotConforming("trace exhausted: writer emitted fewer unions than the datum has")
            idx = self.indices[self.i]
            self.i += 1
            return idx
        return self.fn(node, table, datum, tuple_notation)


def first_conforming(node, table, datum, tuple_notation):
    if isinstance(datum, tuple) and tuple_notation:
        name, v = datum
        for i, b in enumerate(node["branches"]):
            if branch_name(b, table) == name:
                return i
        raise NotConforming(f"no branch named {name}")
    for i, b in enumerate(node["branches"]):
        if conforms(b, table, datum, tuple_notation):
            return i
    raise NotConforming("no branch conforms")


def walk(node, table, d, picker, out, tuple_notation=True, layout=None, marks=None):
    """Encode `d` under `node` appending to bytearray `out`; returns the value a
    reader must give back (documented normalisation).

    layout(kind, n) -> list of (count, negative_form) describing how an array/map
      of n>0 items is split into blocks (default: one positive block).
    marks: optional list receiving ("u"|"e", offset, index, limit) per index written.
    """
    k = node["k"]
    if k == "ref":
        return walk(table[node["name"]], table, d, picker, out, tuple_notation, layout, marks)
    if k == "null":
        if d is not None:
            raise NotConforming("null")
        return None
    if k == "boolean":
        if not isinstance(d, bool):
            raise NotConforming("boolean")
        out.append(1 if d else 0)
        return d
    if k in ("int", "long"):
        lo, hi = (INT_MIN, INT_MAX) if k == "int" else (LONG_MIN, LONG_MAX)
        if not (isinstance(d, int) and not isinstance(d, bool) and lo <= d <= hi):
            raise NotConforming(k)
        enc_long(d, out)
        return int(d)
    if k == "float":
        if not (isinstance(d, (int, float)) and not isinstance(d, bool)):
            raise NotConforming(k)
        enc_float(d, out)
        return f32_round(d)
    if k == "double":
        if not (isinstance(d, (int, float)) and not isinstance(d, bool)):
            raise NotConforming(k)
        enc_double(d, out)
        return float(d)
    if k == "bytes":
        if not isinstance(d, (bytes, bytearray)):
            raise NotConforming(k)
        enc_long(len(d), out)
        out += d
        return bytes(d)
    if k == "string":
        if not isinstance(d, str):
            raise NotConforming(k)
        b = d.encode("utf-8")
        enc_long(len(b), out)
        out += b
        return d
    if k == "fixed":
        if not (isinstance(d, bytes) and len(d) == node["size"]):
            raise NotConforming(k)
        out += d
        return bytes(d)
    if k == "enum":
        if not (isinstance(d, str) and d in node["symbols"]):
            raise NotConforming(k)
        idx = node["symbols"].index(d)
        if marks is not None:
            marks.append(("e", len(out), idx, len(node["symbols"])))
        enc_long(idx, out)
        return d
    if k == "array":
        if not is_seq(d):
            raise NotConforming(k)
        items = list(d)
        res = []
        _blocks(
            items, "array", layout, out,
            lambda x, o: res.append(walk(node["items"], table, x, picker, o, tuple_notation, layout, marks)),
            marks,
        )
        return res
    if k == "map":
        if not isinstance(d, cabc.Mapping) or not all(isinstance(key, str) for key in d):
            raise NotConforming(k)
        res = {}

        def one(kv, o):
            key, v = kv
            kb = key.encode("utf-8")
            enc_long(len(kb), o)
            o += kb
            res[key] = walk(node["values"], table, v, picker, o, tuple_notation, layout, marks)

        _blocks(list(d.items()), "map", layout, out, one, marks)
        return res
    if k == "record":
        if not isinstance(d, cabc.Mapping):
            raise NotConforming(k)
        if "-type" in d and d["-type"] != node["name"]:
            raise NotConforming("-type hint names another record")
        res = {}
        for f in node["fields"]:
            if f["name"] in d:
                v = d[f["name"]]
            elif "default" in f:
                v = default_datum(f["type"], table, f["default"])
            else:
                v = None  # allowed only when the type accepts null (checked by the walk)
            res[f["name"]] = walk(f["type"], table, v, picker, out, tuple_notation, layout, marks)
        return res
    if k == "union":
        idx = picker.pick(node, table, d, tuple_notation)
        if not (isinstance(idx, int) and 0 <= idx < len(node["branches"])):
            raise NotConforming(f"union index {idx} out of range")
        b = node["branches"][idx]
        v = d
        if isinstance(d, tuple) and tuple_notation:
            if len(d) != 2:
                raise NotConforming("hint tuple")
            name, v = d
            if branch_name(b, table) != name:
                raise NotConforming(f"hint {name!r} but branch {branch_name(b, table)!r} selected")
        if marks is not None:
            marks.append(("u", len(out), idx, len(node["branches"])))
        enc_long(idx, out)
        return walk(b, table, v, picker, out, tuple_notation, layout, marks)
    raise RefError("other", k)


def _blocks(items, kind, layout, out, emit, marks):
    n = len(items)
    if n == 0:
        out.append(0)
        return
    plan = layout(kind, n) if layout else [(n, False)]
    assert sum(c for c, _ in plan) == n and all(c > 0 for c, _ in plan)
    i = 0
    for count, negative in plan:
        if negative:
            # marks inside a sized block need their offsets shifted once the
            # block header length is known
            tmp = bytearray()
            m0 = len(marks) if marks is not None else 0
            for x in items[i : i + count]:
                emit(x, tmp)
            enc_long(-count, out)
            enc_long(len(tmp), out)
            if marks is not None:
                base = len(out)
                for j in range(m0, len(marks)):
                    t, off, idx, lim = marks[j]
                    marks[j] = (t, off + base, idx, lim)
            out += tmp
        else:
            enc_long(count, out)
            for x in items[i : i + count]:
                emit(x, out)
        i += count
    out.append(0)


def encode(node, table, d, picker=None, tuple_notation=True, layout=None, marks=None):
    out = bytearray()
    if picker is None:
        picker = Picker(fn=first_conforming)
    norm = walk(node, table, d, picker, out, tuple_notation, layout, marks)
    return bytes(out), norm


# ----------------------------------------------------------------------------- strict decoder
def decode(node, table, buf, pos=0, trace=None, depth=0, conv=None):
    """Returns (value, new_pos).  trace (list) receives union branch indices in
    traversal order.  conv(node, raw) converts leaves that carry a logical type."""
    if conv is not None and "logical" in node:
        v, pos = decode(node, table, buf, pos, trace, depth, None)
        return conv(node, v), pos
    return _decode(node, table, buf, pos, trace, depth, conv)


ITEM_BUDGET = None  # set to [n] to bound the total number of collection items decoded (byte-level fuzzing)


def _decode(node, table, buf, pos, trace, depth, conv):
    if depth > 400:
        raise RefError("other", "too deep")
    k = node["k"]
    if k == "ref":
        return decode(table[node["name"]], table, buf, pos, trace, depth, conv)
    if k == "null":
        return None, pos
    if k == "boolean":
        if pos >= len(buf):
            raise RefError("eof", "boolean")
        return buf[pos] != 0, pos + 1
    if k in ("int", "long"):
        return dec_long(buf, pos)
    if k == "float":
        return dec_float(buf, pos)
    if k == "double":
        return dec_double(buf, pos)
    if k in ("bytes", "string"):
        n, pos = dec_long(buf, pos)
        if n < 0:
            raise RefError("other", "negative length")
        if pos + n > len(buf):
            raise RefError("eof", k)
        raw = bytes(buf[pos : pos + n])
        if k == "string":
            try:
                return raw.decode("utf-8"), pos + n
            except UnicodeDecodeError:
                raise RefError("other", "invalid utf-8")
        return raw, pos + n
    if k == "fixed":
        n = node["size"]
        if pos + n > len(buf):
            raise RefError("eof", k)
        return bytes(buf[pos : pos + n]), pos + n
    if k == "enum":
        i, pos = dec_long(buf, pos)
        if not 0 <= i < len(node["symbols"]):
            raise RefError("index", f"enum index {i}")
        return node["symbols"][i], pos
    if k in ("array", "map"):
        res = [] if k == "array" else {}
        while True:
            c, pos = dec_long(buf, pos)
            if c == 0:
                return res, pos
            size = None
            if c < 0:
                c = -c
                size, pos = dec_long(buf, pos)
                if size < 0:
                    raise RefError("other", "negative block size")
            start = pos
            if ITEM_BUDGET is not None:
                ITEM_BUDGET[0] -= c
                if ITEM_BUDGET[0] < 0:
                    raise RefError("other", "item budget exceeded")
            for _ in range(c):
                if k == "array":
                    v, pos = decode(node["items"], table, buf, pos, trace, depth + 1, conv)
                    res.append(v)
                else:
                    key, pos = decode({"k": "string"}, table, buf, pos, trace, depth + 1, conv)
                    v, pos = decode(node["values"], table, buf, pos, trace, depth + 1, conv)
                    res[key] = v
            if size is not None and pos - start != size:
                raise RefError("other", "block byte size does not match")
    if k == "record":
        res = {}
        for f in node["fields"]:
            res[f["name"]], pos = decode(f["type"], table, buf, pos, trace, depth + 1, conv)
        return res, pos
    if k == "union":
        i, pos = dec_long(buf, pos)
        if not 0 <= i < len(node["branches"]):
            raise RefError("index", f"union index {i}")
        if trace is not None:
            trace.append(i)
        return decode(node["branches"][i], table, buf, pos, trace, depth + 1, conv)
    raise RefError("other", k)


# ----------------------------------------------------------------------------- comparison
def same(a, b):
    """Type-exact, bit-exact-for-floats deep equality; mappings compared unordered."""
    if isinstance(a, float) or isinstance(b, float):
        if not (isinstance(a, float) and isinstance(b, float)):
            return False
        return struct.pack(">d", a) == struct.pack(">d", b)
    if isinstance(a, bool) or isinstance(b, bool):
        return isinstance(a, bool) and isinstance(b, bool) and a == b
    if isinstance(a, dict):
        if not isinstance(b, dict) or len(a) != len(b):
            return False
        for key, v in a.items():
            if key not in b or not same(v, b[key]):
                return False
        return True
    if isinstance(a, list):
        return isinstance(b, list) and len(a) == len(b) and all(same(x, y) for x, y in zip(a, b))
    if isinstance(a, tuple):
        return isinstance(b, tuple) and len(a) == len(b) and all(same(x, y) for x, y in zip(a, b))
    return type(a) is type(b) and a == b


def same_by_value(a, b):
    """Like `same` but numbers compare by value (7 == 7.0); NaN equals NaN."""
    num = (int, float)
    if isinstance(a, bool) or isinstance(b, bool):
        return isinstance(a, bool) and isinstance(b, bool) and a == b
    if isinstance(a, num) and isinstance(b, num):
        if a != a and b != b:
            return True
        return a == b
    if isinstance(a, dict):
        return isinstance(b, dict) and len(a) == len(b) and all(k in b and same_by_value(v, b[k]) for k, v in a.items())
    if isinstance(a, (list, tuple)):
        return type(a) is type(b) and len(a) == len(b) and all(same_by_value(x, y) for x, y in zip(a, b))
    return type(a) is type(b) and a == b


def selftest():
    # zig-zag table from the specification
    for n, u in [(0, 0), (-1, 1), (1, 2), (-2, 3), (2, 4), (-64, 127), (64, 128), (2147483647, 4294967294), (-2147483648, 4294967295)]:
        assert zigzag(n) == u and unzigzag(u) == n, (n, u)
    for n, hx in [(0, "00"), (-1, "01"), (1, "02"), (-2, "03"), (63, "7e"), (-64, "7f"), (64, "8001"), (8192, "808001"), (-8193, "818001")]:
        o = bytearray()
        enc_long(n, o)
        assert o.hex() == hx, (n, o.hex())
        assert dec_long(bytes(o), 0) == (n, len(o))
    o = bytearray()
    enc_long(LONG_MIN, o)
    assert o.hex() == "ffffffffffffffffff01" and dec_long(o, 0)[0] == LONG_MIN
    o = bytearray()
    enc_long(LONG_MAX, o)
    assert o.hex() == "feffffffffffffffff01" and dec_long(o, 0)[0] == LONG_MAX
    o = bytearray()
    enc_float(1.0, o)
    assert o.hex() == "0000803f"
    o = bytearray()
    enc_double(1.0, o)
    assert o.hex() == "000000000000f03f"
    o = bytearray()
    enc_double(-2.5, o)
    assert o.hex() == "00000000000004c0"
    assert dec_double(bytes.fromhex("000000000000f03f"), 0)[0] == 1.0
    assert dec_float(bytes.fromhex("0000803f"), 0)[0] == 1.0
    assert f32_round(0.1) == 0.10000000149011612
    try:
        import numpy as np

        for x in (0.1, 1e-45, 3.4e38, -2.5e-39, 16777217.0, 1 / 3):
            assert f32_round(x) == float(np.float32(x)), x
    except ImportError:
        pass
    # spec example: record {a: long 27, b: string "foo"} -> 36 06 66 6f 6f
    rec = {"k": "record", "name": "test", "aliases": [], "fields": [
        {"name": "a", "type": {"k": "long"}, "aliases": []},
        {"name": "b", "type": {"k": "string"}, "aliases": []}]}
    b, norm = encode(rec, {"test": rec}, {"a": 27, "b": "foo"})
    assert b.hex() == "3606666f6f", b.hex()
    assert decode(rec, {"test": rec}, b)[0] == {"a": 27, "b": "foo"}
    # spec example: array of longs [3, 27] -> 04 06 36 00
    arr = {"k": "array", "items": {"k": "long"}}
    b, _ = encode(arr, {}, [3, 27])
    assert b.hex() == "04063600"
    # spec example: union ["null","string"]: null -> 00 ; "a" -> 02 02 61
    un = {"k": "union", "branches": [{"k": "null"}, {"k": "string"}]}
    assert encode(un, {}, None)[0].hex() == "00"
    assert encode(un, {}, "a")[0].hex() == "020261"
    # multi-block / negative-count layouts decode to the same value
    b2, _ = encode(arr, {}, [1, 2, 3, 4, 5], layout=lambda kind, n: [(2, True), (3, False)])
    assert b2.hex() == "03040204" + "06" + "06080a" + "00", b2.hex()
    assert decode(arr, {}, b2)[0] == [1, 2, 3, 4, 5]

"""Documented union-branch selection rule (property C09), independent of fastavro."""
import collections.abc as cabc
import datetime as dt
import decimal
import uuid

from .model import PRIMS, NAMED, deref, branch_name
from . import binary as B

CANON = {
    "date": (dt.date,),
    "time-millis": (dt.time,),
    "time-micros": (dt.time,),
    "timestamp-millis": (dt.datetime,),
    "timestamp-micros": (dt.datetime,),
    "local-timestamp-millis": (dt.datetime,),
    "local-timestamp-micros": (dt.datetime,),
    "uuid": (uuid.UUID,),
    "decimal": (decimal.Decimal,),
}


def conforms(node, table, d, tuple_notation=True):
    """B.conforms extended with the canonical Python types of logical branches (top of a branch only)."""
    n = deref(node, table)
    if "logical" in n and n["logical"]["type"] in CANON and isinstance(d, CANON[n["logical"]["type"]]):
        return True
    return B.conforms(node, table, d, tuple_notation)


def select(node, table, d, tuple_notation=True):
    """Returns ("exact", i) | ("any", [i...]) | ("error", reason)."""
    bs = node["branches"]
    if isinstance(d, tuple) and tuple_notation:
        if len(d) != 2:
            return ("error", "hint is not a pair")
        name = d[0]
        for i, b in enumerate(bs):
            if branch_name(b, table) == name:
                return ("exact", i)
        return ("error", f"no branch named {name!r}")
    conf = [i for i, b in enumerate(bs) if conforms(b, table, d, tuple_notation)]
    if not conf:
        return ("error", "no branch conforms")
    recs = [i for i in conf if deref(bs[i], table)["k"] == "record"]
    non = [i for i in conf if i not in recs]
    if recs and non:
        return ("any", conf)  # the statement does not rank a record against a non-record branch
    if non:
        first = non[0]
        if deref(bs[first], table)["k"] == "float":
            for j in range(first + 1, len(bs)):
                if deref(bs[j], table)["k"] == "double":
                    return ("exact", j)
        return ("exact", first)
    keys = set(d)
    best, best_n = None, -1
    for i in recs:
        n = len(keys & {f["name"] for f in deref(bs[i], table)["fields"]})
        if n > best_n:
            best, best_n = i, n
    return ("exact", best)

"""Documented union-branch selection rule (property C09), independent of fastavro."""
import collections.abc as cabc
import datetime as dt
import decimal
import uuid

from .model import PRIMS, NAMED, deref, branch_name
from . import binary as B

CANON = {
    "date": (dt.date,),
    "time-millis": (dt.time,),
    "time-micros": (dt.time,),
    "timestamp-millis": (dt.datetime,),
    "timestamp-micros": (dt.datetime,),
    "local-timestamp-millis": (dt.datetime,),
    "local-timestamp-micros": (dt.datetime,),
    "uuid": (uuid.UUID,),
    "decimal": (decimal.Decimal,),
}


def _logical_hook(n, d):
    if "logical" in n and n["logical"]["type"] in CANON and isinstance(d, CANON[n["logical"]["type"]]):
        if n["logical"]["type"] == "decimal":
            return decimal_fits(n, d)
        return True
    return None


def conforms(node, table, d, tuple_notation=True):
    """B.conforms extended with the canonical Python types of logical nodes at any depth."""
    return B.conforms(node, table, d, tuple_notation, hook=_logical_hook)


def decimal_fits(n, d):
    """A decimal belongs to decimal(precision, scale[, size]) when it has no more significant digits than the precision,
    no more fractional digits than the scale and - for fixed - its unscaled value fits the size (C16's wording)."""
    lg = n["logical"]
    sign, digits, exp = d.as_tuple()
    if not isinstance(exp, int):
        return False
    scale = lg.get("scale", 0)
    if len(digits) > lg["precision"] or -exp > scale:
        return False
    if n["k"] == "fixed":
        unscaled = int(d.scaleb(scale).to_integral_value())
        bits = 8 * n["size"] - 1
        return -(1 << bits) <= unscaled < (1 << bits)
    return True


def select(node, table, d, tuple_notation=True):
    """Returns ("exact", i) | ("any", [i...]) | ("error", reason)."""
    bs = node["branches"]
    if isinstance(d, tuple) and tuple_notation:
        if len(d) != 2:
            return ("error", "hint is not a pair")
        name = d[0]
        for i, b in enumerate(bs):
            if branch_name(b, table) == name:
                return ("exact", i)
        return ("error", f"no branch named {name!r}")
    conf = [i for i, b in enumerate(bs) if conforms(b, table, d, tuple_notation)]
    if not conf:
        return ("error", "no branch conforms")
    recs = [i for i in conf if deref(bs[i], table)["k"] == "record"]
    non = [i for i in conf if i not in recs]
    if recs and non:
        return ("any", conf)  # the statement does not rank a record against a non-record branch
    if non:
        first = non[0]
        if deref(bs[first], table)["k"] == "float":
            for j in range(first + 1, len(bs)):
                if deref(bs[j], table)["k"] == "double":
                    return ("exact", j)
        return ("exact", first)
    keys = set(d)
    best, best_n = None, -1
    for i in recs:
        n = len(keys & {f["name"] for f in deref(bs[i], table)["fields"]})
        if n > best_n:
            best, best_n = i, n
    return ("exact", best)

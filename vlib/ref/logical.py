"""Logical-type representations from the specification ("Logical Types").  No fastavro imports."""
import datetime as dt
import decimal
import uuid

UTC = dt.timezone.utc
EPOCH_DATE = dt.date(1970, 1, 1)
EPOCH_AWARE = dt.datetime(1970, 1, 1, tzinfo=UTC)
EPOCH_NAIVE = dt.datetime(1970, 1, 1)
US = dt.timedelta(microseconds=1)

SUPPORTED = {
    ("int", "date"), ("int", "time-millis"), ("long", "time-micros"),
    ("long", "timestamp-millis"), ("long", "timestamp-micros"),
    ("long", "local-timestamp-millis"), ("long", "local-timestamp-micros"),
    ("string", "uuid"), ("bytes", "decimal"), ("fixed", "decimal"),
}


def is_supported(node):
    return "logical" in node and (node["k"], node["logical"]["type"]) in SUPPORTED


def from_raw(node, v):
    """Python value denoted by the underlying raw value `v`."""
    if not is_supported(node):
        return v
    k, lt = node["k"], node["logical"]["type"]
    if lt == "date":
        return EPOCH_DATE + dt.timedelta(days=v)
    if lt == "time-millis":
        return _time_from_us(v * 1000)
    if lt == "time-micros":
        return _time_from_us(v)
    if lt == "timestamp-millis":
        return EPOCH_AWARE + dt.timedelta(microseconds=v * 1000)
    if lt == "timestamp-micros":
        return EPOCH_AWARE + dt.timedelta(microseconds=v)
    if lt == "local-timestamp-millis":
        return EPOCH_NAIVE + dt.timedelta(microseconds=v * 1000)
    if lt == "local-timestamp-micros":
        return EPOCH_NAIVE + dt.timedelta(microseconds=v)
    if lt == "uuid":
        return uuid.UUID(v)
    if lt == "decimal":
        unscaled = int.from_bytes(v, "big", signed=True)
        scale = node["logical"].get("scale", 0)
        return decimal.Decimal(unscaled).scaleb(-scale, decimal.Context(prec=max(1, len(str(abs(unscaled))) + abs(scale) + 2)))
    return v


def _time_from_us(us):
    s, us = divmod(us, 10**6)
    m, s = divmod(s, 60)
    h, m = divmod(m, 60)
    return dt.time(h, m, s, us)


def to_raw(node, v):
    """Underlying raw value the specification prescribes for Python value `v`
    (ints for date/time/timestamps, str for uuid, unscaled int for decimal)."""
    k, lt = node["k"], node["logical"]["type"]
    if lt == "date":
        return (v - EPOCH_DATE).days
    if lt == "time-millis":
        return ((v.hour * 60 + v.minute) * 60 + v.second) * 1000 + v.microsecond // 1000
    if lt == "time-micros":
        return ((v.hour * 60 + v.minute) * 60 + v.second) * 10**6 + v.microsecond
    if lt in ("timestamp-millis", "timestamp-micros"):
        delta = v - EPOCH_AWARE
        us = delta // US
        return us // 1000 if lt.endswith("millis") else us
    if lt in ("local-timestamp-millis", "local-timestamp-micros"):
        delta = v - EPOCH_NAIVE
        us = delta // US
        return us // 1000 if lt.endswith("millis") else us
    if lt == "uuid":
        return str(v)
    if lt == "decimal":
        scale = node["logical"].get("scale", 0)
        scaled = v.scaleb(scale, decimal.Context(prec=200))
        if scaled != scaled.to_integral_value():
            raise ValueError("not integral at this scale")
        return int(scaled)
    raise ValueError(lt)

"""Schema resolution per the specification ("Schema Resolution"), independent of fastavro.

resolve(wnode, wtable, rnode, rtable, buf) -> value the reader must obtain, or
raises NoResult when the rules give no result for the datum at hand."""
from .model import PRIMS, NAMED, deref, split_full
from . import binary as B

PROMOTE = {
    "int": ("long", "float", "double"),
    "long": ("float", "double"),
    "float": ("double",),
    "string": ("bytes",),
    "bytes": ("string",),
}


class NoResult(Exception):
    pass


class Unspecified(Exception):
    """The specification's schema-level matching rule and the statement's per-datum wording disagree: either outcome is accepted."""


class Ambiguous(Exception):
    """The statement does not decide this pairing (alias spelled in another namespace than the writer's type)."""


def names_match(w, r):
    """Named types: same unqualified name, or a reader alias naming the writer's type."""
    wu = split_full(w["name"])[1]
    ru = split_full(r["name"])[1]
    if wu == ru:
        return True
    for a in r.get("aliases", []):
        if a == w["name"]:
            return True
    for a in r.get("aliases", []):
        if split_full(a)[1] == wu:
            # same unqualified name but another namespace: the specification (full-name aliases) and the
            # "unqualified name" reading disagree; nothing is asserted
            raise Ambiguous(f"alias {a} vs writer {w['name']}")
    return False


class Resolver:
    def __init__(self, wtable, rtable):
        self.wt = wtable
        self.rt = rtable

    def matches(self, w, r, exact=False, _seen=None):
        """Static notion of 'schemas match' used to search reader unions."""
        w = deref(w, self.wt)
        r = deref(r, self.rt)
        wk, rk = w["k"], r["k"]
        if wk == "union" or rk == "union":
            return True
        if wk in PRIMS or rk in PRIMS:
            if wk == rk:
                return True
            return (not exact) and rk in PROMOTE.get(wk, ())
        if wk != rk:
            return False
        if wk == "array":
            return self.matches(w["items"], r["items"])
        if wk == "map":
            return self.matches(w["values"], r["values"])
        if wk == "fixed":
            return names_match(w, r) and w["size"] == r["size"]
        return names_match(w, r)

    def pick(self, w, runion):
        wd = deref(w, self.wt)
        if wd["k"] in NAMED:
            # several reader branches may match by unqualified name: the one with the identical full name is meant
            # (otherwise reading with a reader schema equal to the writer schema could not give the plain result)
            for b in runion["branches"]:
                bd = deref(b, self.rt)
                if bd["k"] == wd["k"] and bd["name"] == wd["name"] and self.matches(w, b, exact=True):
                    return b
        for b in runion["branches"]:
            if self.matches(w, b, exact=True):
                return b
        for b in runion["branches"]:
            if self.matches(w, b):
                return b
        if wd["k"] in ("array", "map"):
            # a collection branch of the same kind whose item / value types do not match as schemas: whether that matters
            # depends on the items of the datum at hand (resolve() decides item by item, see there)
            for b in runion["branches"]:
                if deref(b, self.rt)["k"] == wd["k"]:
                    return b
        raise NoResult("no reader branch matches")

    def resolve(self, w, r, buf, pos=0, depth=0):
        if depth > 300:
            raise B.RefError("other", "too deep")
        w = deref(w, self.wt)
        r = deref(r, self.rt)
        wk, rk = w["k"], r["k"]
        if wk == "union":
            i, pos = B.dec_long(buf, pos)
            if not 0 <= i < len(w["branches"]):
                raise B.RefError("index", "union")
            wb = w["branches"][i]
            if rk == "union":
                rb = self.pick(wb, r)
            else:
                if not self.matches(wb, r):
                    raise NoResult("reader does not match the written branch")
                rb = r
            return self.resolve(wb, rb, buf, pos, depth + 1)
        if rk == "union":
            rb = self.pick(w, r)
            return self.resolve(w, rb, buf, pos, depth + 1)
        if wk in PRIMS or rk in PRIMS:
            if wk != rk and rk not in PROMOTE.get(wk, ()):
                raise NoResult(f"{wk} cannot be read as {rk}")
            v, pos = B.decode(w, self.wt, buf, pos)
            if wk == rk:
                return v, pos
            if rk in ("float", "double") and wk in ("int", "long"):
                return float(v), pos
            if wk == "float" and rk == "double":
                return v, pos
            if wk == "int" and rk == "long":
                return v, pos
            if wk == "string" and rk == "bytes":
                return v.encode("utf-8"), pos
            if wk == "bytes" and rk == "string":
                try:
                    return v.decode("utf-8"), pos
                except UnicodeDecodeError:
                    raise B.RefError("other", "undecodable bytes promoted to string (not covered by the statement)")
            raise AssertionError((wk, rk))
        if wk != rk:
            raise NoResult(f"{wk} cannot be read as {rk}")
        if wk in ("array", "map"):
            # the statement speaks about "the datum at hand": item / value types that do not match as schemas matter only
            # through the items actually present; when none of them fails the outcome is left open (Unspecified)
            strict_mismatch = not self.matches(w, r)
            res = [] if wk == "array" else {}
            while True:
                c, pos = B.dec_long(buf, pos)
                if c == 0:
                    if strict_mismatch:
                        raise Unspecified("item/value types do not match as schemas, but no item of the datum is affected")
                    return res, pos
                if c < 0:
                    c = -c
                    _, pos = B.dec_long(buf, pos)
                for _ in range(c):
                    if wk == "array":
                        v, pos = self.resolve(w["items"], r["items"], buf, pos, depth + 1)
                        res.append(v)
                    else:
                        key, pos = B.decode({"k": "string"}, self.wt, buf, pos)
                        v, pos = self.resolve(w["values"], r["values"], buf, pos, depth + 1)
                        res[key] = v
        if wk == "fixed":
            if not names_match(w, r):
                raise NoResult("fixed names differ")
            if w["size"] != r["size"]:
                raise NoResult("fixed sizes differ")
            return B.decode(w, self.wt, buf, pos)
        if wk == "enum":
            if not names_match(w, r):
                raise NoResult("enum names differ")
            sym, pos = B.decode(w, self.wt, buf, pos)
            if sym in r["symbols"]:
                return sym, pos
            if "default" in r:
                return r["default"], pos
            raise NoResult(f"symbol {sym} unknown to the reader and no default")
        if wk == "record":
            if not names_match(w, r):
                raise NoResult("record names differ")
            by_name = {}
            for rf in r["fields"]:
                by_name.setdefault(rf["name"], rf)
            by_alias = {}
            for rf in r["fields"]:
                for a in rf.get("aliases", []):
                    by_alias.setdefault(a, rf)
            out = {}
            used = set()
            for wf in w["fields"]:
                rf = by_name.get(wf["name"]) or by_alias.get(wf["name"])
                if rf is not None:
                    v, pos = self.resolve(wf["type"], rf["type"], buf, pos, depth + 1)
                    out[rf["name"]] = v
                    used.add(rf["name"])
                else:
                    _, pos = B.decode(wf["type"], self.wt, buf, pos)
            for rf in r["fields"]:
                if rf["name"] not in used:
                    if "default" not in rf:
                        raise NoResult(f"reader field {rf['name']} has no default")
                    out[rf["name"]] = B.default_datum(rf["type"], self.rt, rf["default"])
            return out, pos
        raise AssertionError(wk)

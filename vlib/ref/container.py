"""Independent Avro object-container parser and writer (specification section
"Object Container Files").  No fastavro imports."""
import bz2
import lzma
import zlib

from .binary import dec_long, enc_long, RefError

MAGIC = b"Obj\x01"


class ContainerError(Exception):
    def __init__(self, kind, msg=""):
        self.kind = kind
        super().__init__(f"{kind}: {msg}")


def _need(data, pos, n, what):
    if pos + n > len(data):
        raise ContainerError("truncated", what)


def _long(data, pos, what):
    try:
        return dec_long(data, pos)
    except RefError as e:
        raise ContainerError("truncated" if e.kind == "eof" else "malformed", what)


def parse_header(data):
    _need(data, 0, 4, "magic")
    if data[:4] != MAGIC:
        raise ContainerError("magic", repr(data[:4]))
    pos = 4
    meta = {}
    chunks = 0
    while True:
        c, pos = _long(data, pos, "meta block count")
        if c == 0:
            break
        chunks += 1
        if c < 0:
            c = -c
            size, pos = _long(data, pos, "meta block size")
            start = pos
        else:
            size = None
        for _ in range(c):
            n, pos = _long(data, pos, "meta key length")
            if n < 0:
                raise ContainerError("malformed", "negative key length")
            _need(data, pos, n, "meta key")
            try:
                key = data[pos : pos + n].decode("utf-8")
            except UnicodeDecodeError:
                raise ContainerError("malformed", "meta key not utf-8")
            pos += n
            n, pos = _long(data, pos, "meta value length")
            if n < 0:
                raise ContainerError("malformed", "negative value length")
            _need(data, pos, n, "meta value")
            meta[key] = bytes(data[pos : pos + n])
            pos += n
        if size is not None and pos - start != size:
            raise ContainerError("malformed", "meta block size mismatch")
    _need(data, pos, 16, "sync")
    sync = bytes(data[pos : pos + 16])
    pos += 16
    return {"meta": meta, "sync": sync, "header_end": pos, "meta_chunks": chunks}


def decompress(codec, payload):
    """Returns (data, tolerated_tail_bytes)."""
    if codec == "null":
        return payload, 0
    if codec == "deflate":
        d = zlib.decompressobj(-15)
        try:
            out = d.decompress(payload)
        except zlib.error as e:
            raise ContainerError("codec", f"deflate: {e}")
        if not d.eof:
            raise ContainerError("codec", "deflate stream incomplete")
        tail = len(d.unused_data)
        if tail > 3:
            raise ContainerError("codec", f"{tail} stray bytes after the deflate stream")
        return out, tail
    if codec == "bzip2":
        d = bz2.BZ2Decompressor()
        try:
            out = d.decompress(payload)
        except (OSError, ValueError) as e:
            raise ContainerError("codec", f"bzip2: {e}")
        if not d.eof or d.unused_data:
            raise ContainerError("codec", "bzip2 stream incomplete or followed by garbage")
        return out, 0
    if codec == "xz":
        d = lzma.LZMADecompressor(format=lzma.FORMAT_XZ)
        try:
            out = d.decompress(payload)
        except lzma.LZMAError as e:
            raise ContainerError("codec", f"xz: {e}")
        if not d.eof or d.unused_data:
            raise ContainerError("codec", "xz stream incomplete or followed by garbage")
        return out, 0
    raise ContainerError("codec", f"unsupported codec {codec!r}")


def parse(data):
    """Strict parse of a whole file.  Returns header fields + blocks
    [{offset, count, size, payload, data}], codec, deflate_tail (tolerated bytes)."""
    h = parse_header(data)
    codec_raw = h["meta"].get("avro.codec")
    codec = codec_raw.decode("utf-8") if codec_raw is not None else "null"
    pos = h["header_end"]
    blocks = []
    tail_total = 0
    while pos < len(data):
        off = pos
        count, pos = _long(data, pos, "block count")
        if count < 0:
            raise ContainerError("malformed", "negative block count")
        n, pos = _long(data, pos, "block byte length")
        if n < 0:
            raise ContainerError("malformed", "negative block length")
        _need(data, pos, n, "block payload")
        payload = bytes(data[pos : pos + n])
        pos += n
        _need(data, pos, 16, "block sync")
        if data[pos : pos + 16] != h["sync"]:
            raise ContainerError("sync", f"block at {off}")
        pos += 16
        raw, tail = decompress(codec, payload)
        tail_total += tail
        blocks.append({"offset": off, "count": count, "size": pos - off, "payload": payload, "data": raw})
    h.update({"codec": codec, "blocks": blocks, "deflate_tail": tail_total})
    return h


def compress(codec, raw, opt=None):
    opt = opt or {}
    if codec == "null":
        return raw
    if codec == "deflate":
        c = zlib.compressobj(opt.get("level", 6), zlib.DEFLATED, -15)
        out = b""
        cuts = opt.get("sync_flush_at", [])
        prev = 0
        for cut in cuts:
            cut = min(cut, len(raw))
            out += c.compress(raw[prev:cut]) + c.flush(zlib.Z_SYNC_FLUSH)
            prev = cut
        out += c.compress(raw[prev:]) + c.flush()
        return out
    if codec == "bzip2":
        return bz2.compress(raw, opt.get("level", 9))
    if codec == "xz":
        return lzma.compress(raw, format=lzma.FORMAT_XZ, preset=opt.get("level", 6) % 10)
    raise ContainerError("codec", codec)


def write(meta_chunks, sync, blocks, codec, opt=None):
    """meta_chunks: list of (pairs [(key, value-bytes)], negative_form); blocks: list of (count, raw_bytes)."""
    out = bytearray(MAGIC)
    for pairs, negative in meta_chunks:
        if not pairs:
            continue
        body = bytearray()
        for k, v in pairs:
            kb = k.encode("utf-8")
            enc_long(len(kb), body)
            body += kb
            enc_long(len(v), body)
            body += v
        if negative:
            enc_long(-len(pairs), out)
            enc_long(len(body), out)
        else:
            enc_long(len(pairs), out)
        out += body
    out.append(0)
    out += sync
    layout = []
    for count, raw in blocks:
        off = len(out)
        enc_long(count, out)
        payload = compress(codec, raw, opt)
        enc_long(len(payload), out)
        out += payload
        out += sync
        layout.append((off, len(out) - off, count))
    return bytes(out), layout

"""Specification JSON encoding of a datum ("JSON Encoding").  No fastavro imports."""
import collections.abc as cabc

from .model import PRIMS, NAMED, deref, branch_name
from . import binary as B


def encode(node, table, d, picker, tuple_notation=True, union_wrap=True, notes=None):
    """Python object equal to json.loads() of the specification's JSON encoding.
    notes (set) receives "non-f32-under-float" when a number under 'float' is not float32-representable."""
    k = node["k"]
    if k == "ref":
        return encode(table[node["name"]], table, d, picker, tuple_notation, union_wrap, notes)
    if k == "null":
        return None
    if k == "boolean":
        return bool(d)
    if k in ("int", "long"):
        return int(d)
    if k in ("float", "double"):
        if k == "float" and notes is not None and B.f32_round(d) != d:
            notes.add("non-f32-under-float")
        if notes is not None and isinstance(d, int) and float(d) != d:
            notes.add("int-not-exact-as-double")
        return B.f32_round(d) if k == "float" else float(d)
    if k == "string":
        return d
    if k in ("bytes", "fixed"):
        return "".join(chr(b) for b in bytes(d))
    if k == "enum":
        return d
    if k == "array":
        return [encode(node["items"], table, x, picker, tuple_notation, union_wrap, notes) for x in d]
    if k == "map":
        return {key: encode(node["values"], table, v, picker, tuple_notation, union_wrap, notes) for key, v in d.items()}
    if k == "record":
        out = {}
        for f in node["fields"]:
            if f["name"] in d:
                v = d[f["name"]]
            elif "default" in f:
                v = B.default_datum(f["type"], table, f["default"])
            else:
                v = None
            out[f["name"]] = encode(f["type"], table, v, picker, tuple_notation, union_wrap, notes)
        return out
    if k == "union":
        idx = picker.pick(node, table, d, tuple_notation)
        b = node["branches"][idx]
        v = d[1] if (isinstance(d, tuple) and tuple_notation) else d
        inner = encode(b, table, v, picker, tuple_notation, union_wrap, notes)
        if deref(b, table)["k"] == "null" or not union_wrap:
            return inner
        return {branch_name(b, table): inner}
    raise ValueError(k)

"""Resolved schema model + an independent name/namespace resolver over raw JSON
schemas, written from the Avro specification ("Names" section).

Node forms (plain dicts, key "k" is the kind):
  {"k": <primitive>}                       optional "logical": {...}
  {"k": "fixed",  "name": full, "size": n, "aliases": [full...]}
  {"k": "enum",   "name": full, "symbols": [...], "aliases": [...], optional "default": sym}
  {"k": "record", "name": full, "fields": [field...], "aliases": [...]}
        field = {"name", "type": node, "aliases": [..], optional "default": json}
  {"k": "array", "items": node}   {"k": "map", "values": node}
  {"k": "union", "branches": [node...]}
  {"k": "ref", "name": full}
A table maps every full name to its definition node.
"""

PRIMS = ("null", "boolean", "int", "long", "float", "double", "bytes", "string")
NAMED = ("record", "enum", "fixed")


class SchemaError(Exception):
    pass


def split_full(full):
    if "." in full:
        ns, _, short = full.rpartition(".")
        return ns, short
    return "", full


def full_name(name, ns_attr_present, ns_attr, enclosing_ns):
    """The specification's three cases."""
    if "." in name:
        return name.rpartition(".")[0], name
    ns = ns_attr if ns_attr_present else enclosing_ns
    if ns:
        return ns, ns + "." + name
    return "", name


def resolve(schema, table=None, ns=""):
    if table is None:
        table = {}
    return _res(schema, table, ns), table


def _res(s, table, ns):
    if isinstance(s, str):
        if s in PRIMS:
            return {"k": s}
        full = s if "." in s else (ns + "." + s if ns else s)
        if full not in table:
            raise SchemaError(f"undefined name {full}")
        return {"k": "ref", "name": full}
    if isinstance(s, list):
        return {"k": "union", "branches": [_res(b, table, ns) for b in s]}
    if not isinstance(s, dict):
        raise SchemaError(f"bad schema {s!r}")
    t = s.get("type")
    if isinstance(t, str) and t in PRIMS:
        node = {"k": t}
        _logical(s, node)
        return node
    if t == "array":
        return {"k": "array", "items": _res(s["items"], table, ns)}
    if t == "map":
        return {"k": "map", "values": _res(s["values"], table, ns)}
    if t in ("record", "error", "enum", "fixed"):
        if "name" not in s:
            raise SchemaError("named type without name")
        tns, full = full_name(s["name"], "namespace" in s, s.get("namespace"), ns)
        if full in table:
            raise SchemaError(f"redefinition of {full}")
        aliases = [a if "." in a else (tns + "." + a if tns else a) for a in s.get("aliases", [])]
        if t == "fixed":
            node = {"k": "fixed", "name": full, "size": s["size"], "aliases": aliases}
            _logical(s, node)
            table[full] = node
            return node
        if t == "enum":
            node = {"k": "enum", "name": full, "symbols": list(s["symbols"]), "aliases": aliases}
            if "default" in s:
                node["default"] = s["default"]
            table[full] = node
            return node
        node = {"k": "record", "name": full, "fields": [], "aliases": aliases}
        table[full] = node
        for f in s.get("fields", []):
            fld = {"name": f["name"], "type": _res(f["type"], table, tns), "aliases": list(f.get("aliases", []))}
            if "default" in f:
                fld["default"] = f["default"]
            node["fields"].append(fld)
        return node
    raise SchemaError(f"unknown type {t!r}")


def _logical(s, node):
    lt = s.get("logicalType")
    if lt is not None:
        d = {"type": lt}
        for k in ("precision", "scale"):
            if k in s:
                d[k] = s[k]
        node["logical"] = d


def deref(node, table):
    while node["k"] == "ref":
        node = table[node["name"]]
    return node


def strip(node):
    """Structural copy without aliases/defaults/logical (shape comparison)."""
    k = node["k"]
    if k in PRIMS:
        return {"k": k}
    if k == "ref":
        return {"k": "ref", "name": node["name"]}
    if k == "fixed":
        return {"k": k, "name": node["name"], "size": node["size"]}
    if k == "enum":
        return {"k": k, "name": node["name"], "symbols": list(node["symbols"])}
    if k == "record":
        return {"k": k, "name": node["name"], "fields": [{"name": f["name"], "type": strip(f["type"])} for f in node["fields"]]}
    if k == "array":
        return {"k": k, "items": strip(node["items"])}
    if k == "map":
        return {"k": k, "values": strip(node["values"])}
    if k == "union":
        return {"k": k, "branches": [strip(b) for b in node["branches"]]}
    raise SchemaError(k)


def named_defs(node, acc=None):
    """Full names of definitions in document order."""
    if acc is None:
        acc = []
    k = node["k"]
    if k in ("fixed", "enum"):
        acc.append(node["name"])
    elif k == "record":
        acc.append(node["name"])
        for f in node["fields"]:
            named_defs(f["type"], acc)
    elif k == "array":
        named_defs(node["items"], acc)
    elif k == "map":
        named_defs(node["values"], acc)
    elif k == "union":
        for b in node["branches"]:
            named_defs(b, acc)
    return acc


def branch_name(node, table):
    """Name under which a union branch is known (full name for named types)."""
    n = deref(node, table)
    if n["k"] in NAMED:
        return n["name"]
    return n["k"]


def min_heights(table):
    """Least nesting height of a finite datum, per named type (fixpoint)."""
    INF = 10**6
    h = {name: INF for name in table}

    def nh(node):
        k = node["k"]
        if k in PRIMS or k in ("fixed", "enum"):
            return 0
        if k in ("array", "map"):
            return 0  # empty collection
        if k == "ref":
            return h[node["name"]]
        if k == "union":
            return min(nh(b) for b in node["branches"])
        if k == "record":
            m = 0
            for f in node["fields"]:
                m = max(m, nh(f["type"]))
            return min(INF, m + 1)
        raise SchemaError(k)

    changed = True
    while changed:
        changed = False
        for name, node in table.items():
            v = nh(node)
            if v < h[name]:
                h[name] = v
                changed = True
    return h, nh

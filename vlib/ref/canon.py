"""Parsing canonical form and CRC-64-AVRO, from the specification text.  No fastavro imports."""
from .model import PRIMS

EMPTY64 = 0xC15D213AA4D7A795


def canonical(node):
    k = node["k"]
    if k in PRIMS:
        return '"%s"' % k
    if k == "ref":
        return '"%s"' % node["name"]
    if k == "union":
        return "[" + ",".join(canonical(b) for b in node["branches"]) + "]"
    if k == "array":
        return '{"type":"array","items":%s}' % canonical(node["items"])
    if k == "map":
        return '{"type":"map","values":%s}' % canonical(node["values"])
    if k == "fixed":
        return '{"name":"%s","type":"fixed","size":%d}' % (node["name"], node["size"])
    if k == "enum":
        return '{"name":"%s","type":"enum","symbols":[%s]}' % (node["name"], ",".join('"%s"' % s for s in node["symbols"]))
    if k == "record":
        fs = ",".join('{"name":"%s","type":%s}' % (f["name"], canonical(f["type"])) for f in node["fields"])
        return '{"name":"%s","type":"record","fields":[%s]}' % (node["name"], fs)
    raise ValueError(k)


def rabin(data: bytes, visited=None):
    """Bitwise definition (no table): for each byte, xor into the low bits then 8
    conditional shift-xor steps."""
    fp = EMPTY64
    for b in data:
        if visited is not None:
            visited.add((fp ^ b) & 0xFF)
        fp ^= b
        for _ in range(8):
            if fp & 1:
                fp = (fp >> 1) ^ EMPTY64
            else:
                fp >>= 1
    return fp


def rabin_hex_le(data: bytes, visited=None):
    return rabin(data, visited).to_bytes(8, "little").hex()


def selftest():
    assert rabin(b"") == EMPTY64
    # vectors from the Avro schema-tests (canonical form -> signed fingerprint)
    vec = [
        ('"null"', 7195948357588979594),
        ('"boolean"', -6970731678124411036),
        ('"int"', 8247732601305521295),
        ('"long"', -3434872931120570953),
        ('"float"', 5583340709985441680),
        ('"double"', -8181574048448539266),
        ('"bytes"', 5746618253357095269),
        ('"string"', -8142146995180207161),
        ("[]", -1241056759729112623),
        ('["int"]', -5232228896498058493),
        ('{"type":"array","items":"long"}', -5676271108522942200) if False else ('"int"', 8247732601305521295),
    ]
    for text, want in vec:
        got = rabin(text.encode())
        if got >= 2**63:
            got -= 2**64
        assert got == want, (text, got, want)

"""Hypothesis generators: schema IR (names known by construction), renderer with
spelling choices, conforming data, block layouts.

Every random choice goes through `draw`, so cases shrink and replay.
"""
import math
import struct

from hypothesis import strategies as st

from . import tagged
from .ref import model as M
from .ref import binary as B

PRIM_ORDER = ["null", "int", "string", "boolean", "long", "double", "float", "bytes"]
SHORTS = ["A", "B", "Rec", "node", "_x", "T1", "Kind", "Md5"]
NAMESPACES = ["", "ns", "com.ex", "ns.sub", "org.acme.deep"]
FIELDS = ["a", "b", "c", "id", "next", "value", "kids", "f_1", "type", "name", "x9", "_"]
SYMBOLS = ["A", "B", "C", "_d", "e1", "RED", "Green", "z"]
KEYS = ["k", "a", "", "key two", "é", "中", "\U0001f600", "name", "type"]
STRINGS = ["", "a", "foo", "été", "中文", "\U0001f600", "null", "A", "x" * 63, "y" * 64, "\x00", "line\nbreak",
           "1.5", "42", "NaN", "-inf", "1e3", "true", " 7", "2020-02-29", "00000000-0000-0000-0000-000000000005"]


class Features:
    def __init__(self, **kw):
        self.max_depth = 4
        self.max_named = 8
        self.namespaces = True
        self.recursion = True
        self.defaults = True
        self.bytes_defaults = True  # (was excluded while F-DEFAULT-BYTES was open)
        self.dict_prims = 0.08  # probability of {"type": "int"} spelling
        self.dict_null = False  # {"type":"null"} spelling (F-NULL-DICT-FORM)
        self.attrs = False  # doc / aliases / order / custom attributes
        self.hints = 0.0  # probability of (name, value) / "-type" hints in data
        self.omit = 0.3  # probability of omitting a defaulted field
        self.exotic_seqs = True  # tuples / bytes / user sequences as array data
        self.big = True  # >=64-element collections, long strings
        self.extra_keys = 0.05
        self.top_kinds = None  # restrict top-level kind
        self.enum_default = 0.2
        self.empty_records = True
        self.union_weight = 6
        self.union_max = 4
        self.branch_record_weight = 5
        self.field_overlap = False  # records draw field names from the same start (overlapping names)
        self.default_prob = 0.4
        self.name_clash = 0.3  # re-use short names across namespaces
        self.utf8_bytes = False  # bytes data are UTF-8 encodings (bytes->string promotion stays decodable)
        self.unique_shorts = False  # unqualified names unique within a schema
        self.ns_pool = None  # override of NAMESPACES
        self.tuples_in_unions = False  # with tuple notation disabled a tuple is an ordinary sequence everywhere
        self.int_float_defaults = False  # JSON integer literals as defaults of float/double fields
        self.ambiguous_union_defaults = True  # (was excluded by construction while F-UNION-DEFAULT-BRANCH was open)
        self.__dict__.update(kw)


class D:
    """Thin wrapper over hypothesis draw with cheap helpers."""

    def __init__(self, draw):
        self.draw = draw

    def i(self, n):
        return self.draw(st.integers(0, n - 1)) if n > 1 else 0

    def rng(self, lo, hi):
        return self.draw(st.integers(lo, hi))

    def p(self, prob):
        if prob <= 0:
            return False
        if prob >= 1:
            return True
        return self.draw(st.integers(0, 99)) >= 100 - max(1, round(prob * 100))

    def choice(self, seq):
        return seq[self.i(len(seq))]

    def weighted(self, pairs):
        total = sum(w for _, w in pairs)
        assert total <= 128  # keep the range small: hypothesis draws small ranges uniformly
        x = self.draw(st.integers(0, total - 1))
        for v, w in pairs:
            if x < w:
                return v
            x -= w
        return pairs[-1][0]


# ----------------------------------------------------------------------------- schema IR
class SchemaBuilder:
    def __init__(self, d, feat):
        self.d = d
        self.f = feat
        self.table = {}  # full name -> node (complete or open)
        self.open = []  # full names of records under construction
        self.counter = 0

    def new_name(self, ns_hint, kind=None):
        d = self.d
        pool = self.f.ns_pool or NAMESPACES
        if self.f.namespaces:
            ns = ns_hint if (d.p(0.6) and ns_hint in pool) else d.choice(pool)
        else:
            ns = ""
        short = d.choice(SHORTS)
        if self.table and self.f.namespaces and d.p(self.f.name_clash if not self.f.unique_shorts else 0.25):
            # deliberately re-use a short name that already exists in another namespace; a null-namespace
            # type shadowed from inside a namespace is the interesting shape, so prefer those
            nulls = [n for n in self.table if "." not in n]
            pick = d.choice(nulls) if (nulls and ns and d.p(0.6)) else d.choice(list(self.table))
            short = M.split_full(pick)[1]
        full = ns + "." + short if ns else short
        def taken(sh):
            # unique_shorts: unqualified names unique among types of the same kind (types of different kinds never match
            # during schema resolution, so a record and an enum may share a short name)
            return self.f.unique_shorts and sh in {M.split_full(x)[1] for x, n in self.table.items() if kind is None or n["k"] == kind}

        while full in self.table or short in M.PRIMS or taken(short):
            self.counter += 1
            short = f"{short}{self.counter}"
            full = ns + "." + short if ns else short
        return ns, full

    def referable(self, ns, exclude):
        out = []
        for full, node in self.table.items():
            if full in exclude:
                continue
            tns, _ = M.split_full(full)
            if tns == "" and ns != "":
                continue  # a null-namespace name cannot be spelled from inside a namespace
            out.append(full)
        return out

    def gen(self, ns, depth, ctx, exclude=()):
        """ctx: top | field | items | values | branch | branch_escape"""
        d, f = self.d, self.f
        pairs = [("prim", 3 if ctx == "top" else 10)]
        room = len(self.table) < f.max_named
        deep = depth < f.max_depth
        if room:
            pairs += [("enum", 2), ("fixed", 2)]
            if deep:
                pairs.append(("record", 12 if ctx == "top" else (f.branch_record_weight if ctx in ("branch", "branch_escape") else 5)))
        if deep:
            pairs += [("array", 3), ("map", 3)]
            if ctx not in ("branch", "branch_escape"):
                pairs.append(("union", f.union_weight))
        refs = self.referable(ns, exclude)
        complete = [r for r in refs if r not in self.open]
        recursive = [r for r in refs if r in self.open]
        if complete:
            pairs.append(("ref", 6))
        if recursive and f.recursion and ctx in ("items", "values", "branch_escape"):
            pairs.append(("rref", 8))
        if ctx == "top" and f.top_kinds:
            pairs = [(k, w) for k, w in pairs if k in f.top_kinds] or [("record", 1)]
        kind = d.weighted(pairs)
        if kind == "prim":
            return {"k": d.choice(PRIM_ORDER)}
        if kind == "ref":
            return {"k": "ref", "name": d.choice(complete)}
        if kind == "rref":
            return {"k": "ref", "name": d.choice(recursive)}
        if kind == "array":
            return {"k": "array", "items": self.gen(ns, depth + 1, "items")}
        if kind == "map":
            return {"k": "map", "values": self.gen(ns, depth + 1, "values")}
        if kind == "enum":
            tns, full = self.new_name(ns, "enum")
            n = d.rng(1, 5)
            start = d.i(len(SYMBOLS))
            syms = [SYMBOLS[(start + j) % len(SYMBOLS)] for j in range(n)]
            node = {"k": "enum", "name": full, "symbols": syms, "aliases": []}
            if d.p(f.enum_default):
                node["default"] = d.choice(syms)
            self.table[full] = node
            return node
        if kind == "fixed":
            tns, full = self.new_name(ns, "fixed")
            size = d.weighted([(1, 3), (2, 3), (4, 3), (0, 1), (16, 2), (7, 2), (70, 1)])
            node = {"k": "fixed", "name": full, "size": size, "aliases": []}
            self.table[full] = node
            return node
        if kind == "union":
            return self.gen_union(ns, depth)
        if kind == "record":
            return self.gen_record(ns, depth)
        raise AssertionError(kind)

    def gen_union(self, ns, depth):
        d = self.d
        if d.p(0.2):
            # a union made of primitives only (numeric families next to string/bytes/boolean): the shapes where
            # promotion, float deferral and look-alike values matter
            pool = ["string", "double", "int", "null", "float", "long", "boolean", "bytes"]
            k = d.rng(2, 5)
            start = d.i(len(pool))
            step = d.choice([1, 3, 5, 7])
            picked = []
            for j in range(k):
                p = pool[(start + j * step) % len(pool)]
                if p not in picked:
                    picked.append(p)
            return {"k": "union", "branches": [{"k": p} for p in picked]}
        n = d.rng(1, self.f.union_max)
        branches = []
        used_kinds = set()
        used_names = set()
        escape = False
        for j in range(n):
            ctx = "branch_escape" if escape else "branch"
            for _attempt in range(4):
                before = set(self.table)
                b = self.gen(ns, depth + 1, ctx, exclude=used_names)
                k = b["k"]
                if k == "ref":
                    key = b["name"]
                    if key in used_names:
                        continue
                    used_names.add(key)
                elif k in M.NAMED:
                    used_names.add(b["name"])
                else:
                    if k in used_kinds:
                        # rejected branch: forget the definitions nested inside it
                        for name in set(self.table) - before:
                            del self.table[name]
                        continue
                    used_kinds.add(k)
                branches.append(b)
                if k in M.PRIMS:
                    escape = True
                break
        if not branches:
            branches = [{"k": "null"}]
        if "null" not in used_kinds and d.p(0.4):
            branches.append({"k": "null"})  # the common [T, "null"] shape: null last, default from T
        return {"k": "union", "branches": branches}

    def gen_record(self, ns, depth):
        d, f = self.d, self.f
        tns, full = self.new_name(ns, "record")
        node = {"k": "record", "name": full, "fields": [], "aliases": []}
        self.table[full] = node
        self.open.append(full)
        lo = 0 if f.empty_records else 1
        nf = d.weighted([(1, 4), (2, 5), (3, 4), (0, 1 if lo == 0 else 0), (5, 1)])
        start = d.i(3) if f.field_overlap else d.i(len(FIELDS))
        for j in range(nf):
            fname = FIELDS[(start + j) % len(FIELDS)] if f.field_overlap else FIELDS[(start + j * 5) % len(FIELDS)]
            if any(x["name"] == fname for x in node["fields"]):
                fname = f"{fname}{j}"
            ftype = self.gen(tns, depth + 1, "field")
            fld = {"name": fname, "type": ftype, "aliases": []}
            if f.defaults and d.p(f.default_prob):
                try:
                    dflt = self.json_default(ftype, 0)
                    if not f.ambiguous_union_defaults and union_default_ambiguous(ftype, self.table, dflt):
                        raise _NoDefault()
                    fld["default"] = dflt
                except _NoDefault:
                    pass
            node["fields"].append(fld)
        self.open.pop()
        return node

    def json_default(self, node, depth):
        d, f = self.d, self.f
        k = node["k"]
        if k == "ref":
            if node["name"] in self.open or depth > 3:
                raise _NoDefault()
            return self.json_default(self.table[node["name"]], depth + 1)
        if k == "union":
            return self.json_default(node["branches"][0], depth + 1)
        if k == "null":
            return None
        if k == "boolean":
            return d.p(0.5)
        if k == "int":
            return d.choice([0, 1, -1, 42, 2**31 - 1, -(2**31)])
        if k == "long":
            return d.choice([0, -1, 7, 2**40, -(2**63), 2**63 - 1])
        if k in ("float", "double"):
            if f.int_float_defaults and d.p(0.3):
                return d.choice([3, 0, -7])  # a JSON integer literal is a valid default of a float/double
            return d.choice([0.0, 1.5, -2.25, 1e10, 3.0])
        if k == "string":
            return d.choice(["", "dflt", "é"])
        if k in ("bytes", "fixed"):
            if not f.bytes_defaults:
                raise _NoDefault()
            n = node["size"] if k == "fixed" else d.rng(0, 3)
            return "".join(d.choice(["a", "\x00", "ÿ", "z"]) for _ in range(n))
        if k == "enum":
            return d.choice(node["symbols"])
        if k == "array":
            if d.p(0.6) or depth > 2:
                return []
            return [self.json_default(node["items"], depth + 1)]
        if k == "map":
            if d.p(0.6) or depth > 2:
                return {}
            return {"k": self.json_default(node["values"], depth + 1)}
        if k == "record":
            if node["name"] in self.open:
                raise _NoDefault()
            out = {}
            for fl in node["fields"]:
                if "default" in fl and d.p(0.5):
                    continue
                out[fl["name"]] = self.json_default(fl["type"], depth + 1)
            return out
        raise AssertionError(k)


class _NoDefault(Exception):
    pass


def union_default_ambiguous(node, table, dj, depth=0):
    """Somewhere along the JSON default a union is met whose default part, taken as a Python datum, also
    conforms to a branch other than the first (fastavro then may encode the default of an omitted field
    under that other branch)."""
    if depth > 12:
        return True
    try:
        n = table[node["name"]] if node["k"] == "ref" else node
        k = n["k"]
        if k == "union":
            if any(B.conforms(b, table, dj) for b in n["branches"][1:]):
                return True
            return union_default_ambiguous(n["branches"][0], table, dj, depth + 1)
        if k == "array" and isinstance(dj, list):
            return any(union_default_ambiguous(n["items"], table, x, depth + 1) for x in dj)
        if k == "map" and isinstance(dj, dict):
            return any(union_default_ambiguous(n["values"], table, x, depth + 1) for x in dj.values())
        if k == "record" and isinstance(dj, dict):
            for f in n["fields"]:
                if f["name"] in dj:
                    if union_default_ambiguous(f["type"], table, dj[f["name"]], depth + 1):
                        return True
                elif "default" in f:
                    if union_default_ambiguous(f["type"], table, f["default"], depth + 1):
                        return True
            return False
        return False
    except Exception:
        return True


def schema_has_ambiguous_union_default(node, table, seen=None):
    if seen is None:
        seen = set()
    k = node["k"]
    if k == "ref":
        return False
    if k == "record":
        if node["name"] in seen:
            return False
        seen.add(node["name"])
        for f in node["fields"]:
            t = f["type"]
            if "default" in f and union_default_ambiguous(t, table, f["default"]):
                return True
            if schema_has_ambiguous_union_default(t, table, seen):
                return True
        return False
    if k == "array":
        return schema_has_ambiguous_union_default(node["items"], table, seen)
    if k == "map":
        return schema_has_ambiguous_union_default(node["values"], table, seen)
    if k == "union":
        return any(schema_has_ambiguous_union_default(b, table, seen) for b in node["branches"])
    return False


# ----------------------------------------------------------------------------- rendering
class Renderer:
    """IR -> raw JSON schema.  Each name is spelled in one of the ways the
    specification maps back to the same full name."""

    def __init__(self, d, feat, table):
        self.d = d
        self.f = feat
        self.table = table
        self.defined = set()
        self.attr_counter = 0

    def render(self, node, ns=""):
        d, f = self.d, self.f
        k = node["k"]
        if k in M.PRIMS and "logical" in node:
            out = {"type": k, "logicalType": node["logical"]["type"]}
            for key in ("precision", "scale"):
                if key in node["logical"]:
                    out[key] = node["logical"][key]
            return self.decorate(out)
        if k in M.PRIMS:
            dict_ok = (k != "null") or f.dict_null
            if dict_ok and d.p(f.dict_prims):
                out = {"type": k}
                if f.attrs and d.p(0.3):
                    out["custom"] = d.choice(["x", 1, True, None, [1], {"a": 1}])
                return out
            return k
        if k == "ref":
            return self.spell_ref(node["name"], ns)
        if k == "array":
            out = {"type": "array", "items": self.render(node["items"], ns)}
            return self.decorate(out)
        if k == "map":
            out = {"type": "map", "values": self.render(node["values"], ns)}
            return self.decorate(out)
        if k == "union":
            out = [self.render(b, ns) for b in node["branches"]]
            kinds = [b["k"] for b in node["branches"]]
            if "float" in kinds and "double" in kinds and kinds.index("float") < kinds.index("double") and d.p(0.5):
                j = kinds.index("double")
                if out[j] == "double":
                    out[j] = {"type": "double"}  # the float->double deferral must recognise every spelling
            return out
        # named definitions
        full = node["name"]
        if full in self.defined:
            # the IR places a definition node only once; reaching it again means
            # the same node object is shared: spell it as a reference
            return self.spell_ref(full, ns)
        self.defined.add(full)
        tns, short = M.split_full(full)
        out = {"type": k}
        spellings = []
        if tns:
            spellings.append("dotted")
        spellings.append("attr")
        if tns == ns:
            spellings.insert(0, "inherit")
        sp = d.choice(spellings)
        if sp == "dotted":
            out["name"] = full
            if d.p(0.3):
                out["namespace"] = d.choice(["ignored.ns", tns, ""])  # a dotted name wins
        elif sp == "attr":
            out["name"] = short
            out["namespace"] = tns
        else:
            out["name"] = short
        if k == "fixed":
            out["size"] = node["size"]
            if "logical" in node:
                out["logicalType"] = node["logical"]["type"]
                for key in ("precision", "scale"):
                    if key in node["logical"]:
                        out[key] = node["logical"][key]
        elif k == "enum":
            out["symbols"] = list(node["symbols"])
            if "default" in node:
                out["default"] = node["default"]
        else:
            fields = []
            for fl in node["fields"]:
                fo = {"name": fl["name"], "type": self.render(fl["type"], tns)}
                if "default" in fl:
                    fo["default"] = fl["default"]
                if fl.get("aliases"):
                    fo["aliases"] = list(fl["aliases"])
                if f.attrs:
                    if d.p(0.2):
                        fo["doc"] = "field doc"
                    if d.p(0.15):
                        fo["order"] = d.choice(["ascending", "descending", "ignore"])
                    if getattr(f, "shuffle_keys", False) and d.p(0.5):
                        keys = list(fo)[::-1]
                        fo = {k: fo[k] for k in keys}
                fields.append(fo)
            out["fields"] = fields
        if node.get("aliases"):
            out["aliases"] = [self.spell_alias(a, tns) for a in node["aliases"]]
        return self.decorate(out)

    def spell_alias(self, afull, tns):
        ans, ashort = M.split_full(afull)
        if ans == tns and self.d.p(0.5):
            return ashort
        return afull if ans else ashort

    def spell_ref(self, full, ns):
        tns, short = M.split_full(full)
        shadowed = bool(tns) and short in self.table
        if tns == ns and (not tns or self.d.p(0.8 if shadowed else 0.5)):
            return short
        assert tns, (full, ns)
        return full

    def decorate(self, out):
        d, f = self.d, self.f
        if f.attrs:
            if d.p(0.25):
                out["doc"] = "some doc é"
            if d.p(0.15):
                out["x-custom"] = d.choice([1, "s", [1, 2], {"k": None}])
            if getattr(f, "shuffle_keys", False) and d.p(0.5):
                keys = list(out)
                r = d.i(len(keys))
                keys = keys[r:] + keys[:r]
                if d.p(0.5):
                    keys.reverse()
                out = {k: out[k] for k in keys}
        return out


def build_schema(d, feat):
    sb = SchemaBuilder(d, feat)
    ir = sb.gen(d.choice(NAMESPACES) if (feat.namespaces and d.p(0.2)) else "", 0, "top")
    # the top-level enclosing namespace is always null; a namespace hint only biases names
    table = sb.table
    r = Renderer(d, feat, table)
    js = r.render(ir, "")
    # keep only reachable definitions in the truth table
    reach = {}
    for full in M.named_defs(ir):
        reach[full] = table[full]
    return ir, reach, js


def check_truth(ir, table, js):
    """Resolver vs construction truth (generator/oracle consistency)."""
    node, t2 = M.resolve(js)
    if M.strip(node) != M.strip(ir):
        raise AssertionError(f"resolver disagrees with construction truth:\n{js}\n{M.strip(node)}\n{M.strip(ir)}")
    if list(t2) != list(table):
        raise AssertionError(f"name tables differ: {list(t2)} vs {list(table)}")
    return node, t2


# ----------------------------------------------------------------------------- data
def _int_boundaries(lo, hi):
    vals = {0, 1, -1, lo, hi, lo + 1, hi - 1}
    for k in range(1, 11):
        b = 2 ** (7 * k - 1)
        for v in (b - 1, b, b + 1, -b - 1, -b, -b + 1):
            if lo <= v <= hi:
                vals.add(v)
    return sorted(vals, key=lambda v: (abs(v), v))


INT_B = _int_boundaries(B.INT_MIN, B.INT_MAX)
LONG_B = _int_boundaries(B.LONG_MIN, B.LONG_MAX)


def _f(bits):
    return struct.unpack(">d", struct.pack(">Q", bits))[0]


DOUBLES = [0.0, -0.0, 1.0, -1.5, 5e-324, -5e-324, 2.2250738585072014e-308, 1.7976931348623157e308,
           float("inf"), float("-inf"), float("nan"), _f(0xFFF8000000000001), 0.1, 1e100, 123456.789]
FLOATS32 = [0.0, -0.0, 1.0, -1.5, 1.401298464324817e-45, -1.401298464324817e-45, 1.1754943508222875e-38,
            3.4028234663852886e38, float("inf"), float("-inf"), float("nan"), 0.10000000149011612, 16777216.0]
FLOATS_ROUND = [0.1, 1 / 3, 16777217.0, 3.4028234e38, 1e-46, 2.5e-39, -0.7, 1e-50, 3.4028235e38]


class DataGen:
    def __init__(self, d, feat, table):
        self.d = d
        self.f = feat
        self.table = table
        self.heights, self.nh = M.min_heights(table)
        self._root = None
        self.has_float = False

    def _scan_float(self, node, seen):
        k = node["k"]
        if k == "float":
            return True
        if k == "ref":
            if node["name"] in seen:
                return False
            seen.add(node["name"])
            return self._scan_float(self.table[node["name"]], seen)
        if k == "record":
            seen.add(node["name"])
            return any(self._scan_float(f["type"], seen) for f in node["fields"])
        if k == "array":
            return self._scan_float(node["items"], seen)
        if k == "map":
            return self._scan_float(node["values"], seen)
        if k == "union":
            return any(self._scan_float(b, seen) for b in node["branches"])
        return False

    def gen(self, node, budget, in_union=False):
        d, f = self.d, self.f
        if self._root is None:
            # doubles beyond IEEE single range are only drawn when no 'float' exists anywhere in the schema:
            # an unhinted value may legitimately be written under a float branch, where it is not representable
            self._root = node
            self.has_float = self._scan_float(node, set())
        k = node["k"]
        if k == "ref":
            return self.gen(self.table[node["name"]], budget, in_union)
        if k == "null":
            return None
        if k == "boolean":
            return d.p(0.5)
        if k == "int":
            if d.p(0.5):
                return d.choice(INT_B)
            return d.rng(B.INT_MIN, B.INT_MAX)
        if k == "long":
            if d.p(0.5):
                return d.choice(LONG_B)
            return d.rng(B.LONG_MIN, B.LONG_MAX)
        if k == "double":
            w = d.i(10)
            if w < 5:
                x = d.choice(DOUBLES)
            elif w < 8:
                x = d.draw(st.floats())
            else:
                return d.choice(LONG_B)  # a Python int under double
            if self.has_float and x == x and abs(x) != float("inf") and abs(x) > B.F32_MAX:
                x = math.copysign(B.F32_MAX, x)
            return x
        if k == "float":
            w = d.i(10)
            if w < 4:
                return d.choice(FLOATS32)
            if w < 6:
                return d.draw(st.floats(width=32))
            if w < 8:
                return d.choice(FLOATS_ROUND)
            return d.choice(INT_B)
        if k == "string":
            return self.string()
        if k == "bytes":
            if f.utf8_bytes:
                return self.string().encode("utf-8")
            w = d.i(10)
            if w < 2:
                return b""
            if w < 7:
                return d.draw(st.binary(max_size=6))
            if w < 8:
                return bytearray(d.draw(st.binary(max_size=4)))
            if w < 9 and f.big:
                return bytes(range(256))
            return bytes([d.rng(0, 255)]) * d.choice([1, 63, 64, 65])
        if k == "fixed":
            n = node["size"]
            if n == 0:
                return b""
            if d.p(0.5):
                return bytes([d.rng(0, 255)]) * n
            return d.draw(st.binary(min_size=n, max_size=n))
        if k == "enum":
            return d.choice(node["symbols"])
        if k == "array":
            return self.array(node, budget, in_union)
        if k == "map":
            return self.map(node, budget)
        if k == "record":
            return self.record(node, budget)
        if k == "union":
            return self.union(node, budget)
        raise AssertionError(k)

    def string(self):
        d, f = self.d, self.f
        w = d.i(12)
        if w < 7:
            return d.choice(STRINGS)
        if w < 10:
            return d.draw(st.text(max_size=8))
        if w < 11 and f.big:
            ch = d.choice(["a", "é", "中", "\U0001f600"])
            n = d.choice([8191, 8192, 8193, 63, 64, 65])
            return ch * (n // len(ch.encode()))
        return d.choice(STRINGS)

    def _len(self, item_node, budget):
        d, f = self.d, self.f
        if budget <= 0 or self.nh(item_node) >= budget:
            return 0
        cheap = M.deref(item_node, self.table)["k"] in M.PRIMS
        w = d.i(20)
        if w < 4:
            return 0
        if w < 10:
            return 1
        if w < 15:
            return 2
        if w < 18:
            return d.rng(3, 8)
        if cheap and f.big:
            return d.choice([63, 64, 65, 130])
        return 3

    def array(self, node, budget, in_union):
        d, f = self.d, self.f
        item = node["items"]
        n = self._len(item, budget)
        ik = M.deref(item, self.table)["k"]
        if f.exotic_seqs and ik in ("int", "long", "float", "double") and d.p(0.05):
            return d.draw(st.binary(max_size=4))  # bytes is a non-string sequence of ints
        if f.exotic_seqs and ik in ("int", "long", "float", "double") and d.p(0.06):
            import array as _arr
            code = d.choice(["d", "f", "i", "q", "b", "H"])
            if code in ("d", "f"):
                if ik in ("float", "double"):
                    vals = [d.choice([0.0, 1.5, -2.25, 0.10000000149011612, 16777216.0, -0.0]) for _ in range(min(n, 6) or 1)]
                    return _arr.array(code, vals)
            else:
                lim = {"i": 2**31 - 1, "q": 2**31 - 1 if ik == "int" else 2**62, "b": 127, "H": 65535}[code]
                vals = [min(lim, d.choice([0, 1, lim, 64, 8192])) for _ in range(min(n, 6) or 1)]
                return _arr.array(code, vals)
        items = [self.gen(item, budget - 1, in_union=False) for _ in range(n)]
        if f.exotic_seqs:
            w = d.i(20)
            if (w == 0 and not in_union) or (f.tuples_in_unions and w < 5):
                return tuple(items)
            if w == 1:
                return tagged.UserSeq(items)
        return items

    def map(self, node, budget):
        d = self.d
        n = self._len(node["values"], budget)
        out = {}
        start = d.i(len(KEYS))
        for j in range(n):
            key = KEYS[(start + j) % len(KEYS)] if j < len(KEYS) else f"k{j}"
            if d.p(0.1):
                key = d.draw(st.text(max_size=5))
            out[key] = self.gen(node["values"], budget - 1)
        if self.f.exotic_seqs and d.p(0.04):
            return tagged.UserMap(out)
        return out

    def record(self, node, budget):
        d, f = self.d, self.f
        out = {}
        minimal = f.omit > 0 and d.p(0.08)  # a datum that names as few fields as the schema allows (possibly {})
        for fl in node["fields"]:
            if minimal and ("default" in fl or B.conforms(fl["type"], self.table, None)):
                continue
            if "default" in fl and d.p(f.omit):
                continue
            if "default" not in fl and d.p(f.omit / 3) and B.conforms(fl["type"], self.table, None):
                continue  # the type accepts null
            if "default" in fl and d.p(0.25) and B.conforms(fl["type"], self.table, None):
                out[fl["name"]] = None  # explicit null where a (possibly non-null) default exists
                continue
            out[fl["name"]] = self.gen(fl["type"], budget - 1)
        if d.p(f.extra_keys):
            out["zz_extra"] = 1
        if f.hints and d.p(f.hints / 2):
            out["-type"] = node["name"]
        return out

    def union(self, node, budget):
        d, f = self.d, self.f
        bs = node["branches"]
        ok = [i for i, b in enumerate(bs) if self.nh(b) < max(budget, 1)] if budget <= 1 else list(range(len(bs)))
        if not ok:
            ok = [min(range(len(bs)), key=lambda i: self.nh(bs[i]))]
        i = d.choice(ok)
        v = self.gen(bs[i], budget - 1, in_union=True)
        kinds = [M.deref(b, self.table)["k"] for b in bs]
        if kinds[i] == "string" and ("double" in kinds or "float" in kinds or "int" in kinds or "long" in kinds or "boolean" in kinds) and d.p(0.4):
            # a string that looks like a value of a sibling branch must still go to the string branch
            v = d.choice(["1.5", "42", "NaN", "-inf", "1e3", "true", "0"])
        if f.hints and d.p(f.hints):
            return (M.branch_name(bs[i], self.table), v)
        return v


def layout_strategy(d, max_blocks=4, stats=None):
    """Returns a layout(kind, n) function drawing a block partition per collection."""

    def layout(kind, n):
        plan = _layout(kind, n)
        if stats is not None:
            stats["max_blocks"] = max(stats.get("max_blocks", 0), len(plan))
            stats["neg"] = stats.get("neg", 0) + sum(1 for _, neg in plan if neg)
        return plan

    def _layout(kind, n):
        if n <= 0:
            return []
        nb = min(n, d.rng(1, max_blocks))
        cuts = sorted(set(d.rng(1, n - 1) for _ in range(nb - 1))) if n > 1 and nb > 1 else []
        sizes = []
        prev = 0
        for c in cuts + [n]:
            sizes.append(c - prev)
            prev = c
        return [(s, d.p(0.4)) for s in sizes if s > 0]

    return layout


# ----------------------------------------------------------------------------- label helpers
def schema_labels(node, table, labels=None, depth=0, seen=None):
    if labels is None:
        labels = set()
    if seen is None:
        seen = set()
    k = node["k"]
    labels.add("s:" + k)
    if k == "ref":
        labels.add("s:ref")
        if node["name"] in seen:
            labels.add("s:recursive")
    elif k == "record":
        if not node["fields"]:
            labels.add("s:empty-record")
        seen = seen | {node["name"]}
        for fl in node["fields"]:
            if "default" in fl:
                labels.add("s:default")
            schema_labels(fl["type"], table, labels, depth + 1, seen)
    elif k == "array":
        schema_labels(node["items"], table, labels, depth + 1, seen)
    elif k == "map":
        schema_labels(node["values"], table, labels, depth + 1, seen)
    elif k == "union":
        for b in node["branches"]:
            schema_labels(b, table, labels, depth + 1, seen)
    if k in M.NAMED and "." in node["name"]:
        labels.add("s:namespaced")
    if depth == 0:
        shorts = [M.split_full(n)[1] for n in table]
        if len(shorts) != len(set(shorts)):
            labels.add("s:short-name-clash")
    return labels


def data_labels(d, labels=None, depth=0):
    if labels is None:
        labels = set()
    if isinstance(d, bool) or d is None:
        return labels
    if isinstance(d, int):
        labels.add(f"d:varint{B.varint_len(d)}" if B.LONG_MIN <= d <= B.LONG_MAX else "d:bigint")
    elif isinstance(d, float):
        if d != d:
            labels.add("d:nan")
        elif d in (float("inf"), float("-inf")):
            labels.add("d:inf")
        elif d == 0 and math.copysign(1, d) < 0:
            labels.add("d:negzero")
    elif isinstance(d, str):
        n = len(d.encode("utf-8", "surrogatepass"))
        if n >= 64:
            labels.add("d:str>=64B")
        if n >= 8192:
            labels.add("d:str>=8192B")
        if n != len(d):
            labels.add("d:multibyte")
    elif isinstance(d, (bytes, bytearray)):
        if len(d) >= 64:
            labels.add("d:bytes>=64")
    elif isinstance(d, tuple):
        labels.add("d:tuple")
        for x in d:
            data_labels(x, labels, depth + 1)
    elif hasattr(d, "items"):
        if len(d) >= 64:
            labels.add("d:coll>=64")
        if not isinstance(d, dict):
            labels.add("d:usermap")
        if "-type" in d:
            labels.add("d:-type-hint")
        for v in d.values():
            data_labels(v, labels, depth + 1)
    elif hasattr(d, "__iter__"):
        if len(d) >= 64:
            labels.add("d:coll>=64")
        if len(d) == 0:
            labels.add("d:empty-coll")
        if not isinstance(d, list):
            labels.add("d:nonlist-seq")
        for v in d:
            data_labels(v, labels, depth + 1)
    return labels


# ----------------------------------------------------------------------------- cosmetic variants
import copy as _copy

_LOGICAL_FOR = {
    "int": [{"type": "date"}, {"type": "time-millis"}],
    "long": [{"type": "timestamp-millis"}, {"type": "timestamp-micros"}, {"type": "time-micros"}, {"type": "local-timestamp-millis"}],
    "string": [{"type": "uuid"}],
    "bytes": [{"type": "decimal", "precision": 5, "scale": 2}],
}


def cosmetic_variant(d, ir, table):
    """Deep copy of the IR with edits confined to aliases, defaults and logical
    annotations (the renderer adds doc / order / custom attributes / key order /
    name spelling).  Returns (ir2, table2)."""
    ir2 = _copy.deepcopy(ir)
    table2 = {}

    def visit(node, in_default_ok=True):
        k = node["k"]
        if k in M.NAMED:
            table2[node["name"]] = node
            if d.p(0.3):
                tns, short = M.split_full(node["name"])
                node["aliases"] = [(tns + ".Old" + short) if tns and d.p(0.5) else "other.Old" + short]
            elif node.get("aliases"):
                node["aliases"] = []
        if k == "record":
            for fl in node["fields"]:
                if "default" in fl and d.p(0.5):
                    del fl["default"]
                if d.p(0.2):
                    fl["aliases"] = ["old_" + fl["name"]]
                visit(fl["type"])
        elif k == "array":
            visit(node["items"])
        elif k == "map":
            visit(node["values"])
        elif k == "union":
            for b in node["branches"]:
                visit(b)
        elif k in _LOGICAL_FOR and d.p(0.25):
            node["logical"] = dict(d.choice(_LOGICAL_FOR[k]))
        elif k == "fixed" and node["size"] >= 2 and d.p(0.25):
            node["logical"] = {"type": "decimal", "precision": 3, "scale": 1}

    visit(ir2)
    return ir2, table2


# ----------------------------------------------------------------------------- graph form and evolution (C08)
def to_graph(ir):
    """IR (definitions at first use) -> (root, table) where every named occurrence is a ref node."""
    table = {}

    def conv(node):
        k = node["k"]
        if k in M.PRIMS:
            return dict(node)
        if k == "ref":
            return {"k": "ref", "name": node["name"]}
        if k == "array":
            return {"k": "array", "items": conv(node["items"])}
        if k == "map":
            return {"k": "map", "values": conv(node["values"])}
        if k == "union":
            return {"k": "union", "branches": [conv(b) for b in node["branches"]]}
        full = node["name"]
        if k == "record":
            d = {"k": "record", "name": full, "aliases": list(node.get("aliases", [])), "fields": []}
            table[full] = d
            for f in node["fields"]:
                nf = {"name": f["name"], "type": conv(f["type"]), "aliases": list(f.get("aliases", []))}
                if "default" in f:
                    nf["default"] = f["default"]
                d["fields"].append(nf)
        else:
            d = _copy.deepcopy(node)
            table[full] = d
        return {"k": "ref", "name": full}

    return conv(ir), table


def linearize(root, table, already=()):
    """(root, table) graph -> IR with each definition placed at its first use (depth-first).
    Names in `already` are emitted as references even at their first occurrence."""
    placed = set(already)
    out_table = {}

    def lin(node):
        k = node["k"]
        if k in M.PRIMS:
            return dict(node)
        if k == "array":
            return {"k": "array", "items": lin(node["items"])}
        if k == "map":
            return {"k": "map", "values": lin(node["values"])}
        if k == "union":
            return {"k": "union", "branches": [lin(b) for b in node["branches"]]}
        assert k == "ref", k
        full = node["name"]
        if full in placed:
            return {"k": "ref", "name": full}
        placed.add(full)
        d = table[full]
        if d["k"] == "record":
            nd = {"k": "record", "name": full, "aliases": list(d.get("aliases", [])), "fields": []}
            out_table[full] = nd
            for f in d["fields"]:
                nf = {"name": f["name"], "type": lin(f["type"]), "aliases": list(f.get("aliases", []))}
                if "default" in f:
                    nf["default"] = f["default"]
                nd["fields"].append(nf)
            return nd
        nd = _copy.deepcopy(d)
        out_table[full] = nd
        return nd

    ir = lin(root)
    return ir, out_table


def union_ok(node, table):
    seen_k, seen_n = set(), set()
    for b in node["branches"]:
        if b["k"] == "union":
            return False
        if b["k"] == "ref":
            if b["name"] in seen_n:
                return False
            seen_n.add(b["name"])
        else:
            if b["k"] in seen_k:
                return False
            seen_k.add(b["k"])
    return len(node["branches"]) >= 1


def graph_ok(root, table):
    def ok(node):
        k = node["k"]
        if k == "union":
            return union_ok(node, table) and all(ok(b) for b in node["branches"])
        if k == "array":
            return ok(node["items"])
        if k == "map":
            return ok(node["values"])
        if k == "ref":
            return node["name"] in table
        return True

    if not ok(root):
        return False
    for d in table.values():
        if d["k"] == "record":
            names = [f["name"] for f in d["fields"]]
            if len(names) != len(set(names)):
                return False
            if not all(ok(f["type"]) for f in d["fields"]):
                return False
        if d["k"] == "enum" and (len(d["symbols"]) < 1 or len(set(d["symbols"])) != len(d["symbols"])):
            return False
    # a by-name reference to a null-namespace type cannot be spelled from inside a namespaced record
    try:
        ir, _ = linearize(reachable_root(root), table)
    except KeyError:
        return False
    return _spellable(ir, "")


def reachable_root(root):
    return root


def _spellable(node, ns):
    k = node["k"]
    if k == "ref":
        tns = M.split_full(node["name"])[0]
        return bool(tns) or ns == ""
    if k == "array":
        return _spellable(node["items"], ns)
    if k == "map":
        return _spellable(node["values"], ns)
    if k == "union":
        return all(_spellable(b, ns) for b in node["branches"])
    if k == "record":
        tns = M.split_full(node["name"])[0]
        return all(_spellable(f["type"], tns) for f in node["fields"])
    return True


SIMPLE_ADDS = [
    ({"k": "int"}, 0), ({"k": "string"}, "x"), ({"k": "boolean"}, True), ({"k": "null"}, None), ({"k": "double"}, 1.5),
    ({"k": "long"}, -7), ({"k": "union", "branches": [{"k": "null"}, {"k": "int"}]}, None),
    ({"k": "array", "items": {"k": "int"}}, []), ({"k": "map", "values": {"k": "string"}}, {}),
    ({"k": "array", "items": {"k": "string"}}, ["a", "b"]),
]
def _rich_add(d, table, owner=""):
    """(type, JSON default) for a reader-only field beyond the simple ones: numbers given as JSON integers, new named
    types (enum, fixed-free record with nested defaults), non-empty maps, unions whose first branch is not null,
    references to types that already exist."""
    n = sum(1 for k in table if ".Added" in k or k.startswith("Added"))
    w = d.choice(["double-int", "float-int", "enum", "record", "map", "union-string", "union-record", "nested", "existing", "long-big", "bytes"])
    if w == "bytes":
        return {"k": "bytes"}, d.choice(["", "ab", "\u00ff\u0000\u0080"])
    if w == "double-int":
        return {"k": "double"}, d.choice([1, 0, -3])
    if w == "float-int":
        return {"k": "float"}, d.choice([2, 0.5])
    if w == "long-big":
        return {"k": "long"}, d.choice([2**40, -(2**62)])
    if w == "enum":
        name = f"AddedEnum{n}"
        table[name] = {"k": "enum", "name": name, "aliases": [], "symbols": ["P", "Q", "R"]}
        return {"k": "ref", "name": name}, d.choice(["P", "R"])
    earlier = [k for k in table if k.startswith("AddedRec")]
    if w in ("record", "union-record") and earlier and not owner.startswith("Added") and d.p(0.6):
        # (never inside an Added* record itself: a record whose own field defaults to a value of that record never ends)
        # the type already exists: the field refers to it BY NAME and its default still has to be completed
        return ({"k": "ref", "name": earlier[0]} if w == "record" else {"k": "union", "branches": [{"k": "ref", "name": earlier[0]}, {"k": "null"}]}), d.choice([{"q": []}, {"q": ["y"], "p": 2}])
    if w in ("record", "union-record", "nested"):
        name = f"AddedRec{n}"
        table[name] = {"k": "record", "name": name, "aliases": [], "fields": [
            {"name": "p", "type": {"k": "int"}, "aliases": [], "default": 5},
            {"name": "q", "type": {"k": "array", "items": {"k": "string"}}, "aliases": []},
            {"name": "r", "type": {"k": "union", "branches": [{"k": "null"}, {"k": "string"}]}, "aliases": [], "default": None}]}
        dv = d.choice([{"q": []}, {"p": 1, "q": ["z"], "r": None}, {"q": ["a", "b"], "p": -1}])
        if w == "record":
            return {"k": "ref", "name": name}, dv
        if w == "union-record":
            return {"k": "union", "branches": [{"k": "ref", "name": name}, {"k": "null"}]}, dv
        return {"k": "map", "values": {"k": "array", "items": {"k": "ref", "name": name}}}, d.choice([{}, {"k": [dv]}, {"k": [], "l": [dv, dv]}])
    if w == "map":
        return {"k": "map", "values": {"k": "long"}}, {"a": 1, "b": -2}
    if w == "union-string":
        return {"k": "union", "branches": [{"k": "string"}, {"k": "null"}, {"k": "int"}]}, d.choice(["s", ""])
    # an existing enum (an existing record could be the one being extended: its default would never end)
    for full, t in table.items():
        if t["k"] == "enum" and d.p(0.7):
            return {"k": "ref", "name": full}, t["symbols"][d.i(len(t["symbols"]))]
    return {"k": "double"}, 7


NONPROMO = {"int": "string", "long": "boolean", "float": "int", "double": "float", "string": "int", "bytes": "long", "boolean": "int", "null": "int"}
EVO_STEPS = [
    ("reorder", 4), ("drop-field", 5), ("add-field-default", 8), ("rename-field-alias", 3), ("promote", 6),
    ("enum-add", 2), ("enum-remove-default", 3), ("rename-type-alias", 3), ("change-namespace", 2),
    ("wrap-union", 5), ("unwrap-union", 3), ("permute-union", 3), ("union-insert-branch", 5), ("split-named", 6),
    ("add-field-nodefault", 2), ("change-type", 2), ("enum-remove-nodefault", 2), ("fixed-size", 3), ("rename-type-noalias", 2), ("union-drop-branch", 2),
]


def _slots(root_holder, table):
    """All type positions as (container, key)."""
    out = []

    def visit(container, key):
        node = container[key]
        out.append((container, key))
        k = node["k"]
        if k == "array":
            visit(node, "items")
        elif k == "map":
            visit(node, "values")
        elif k == "union":
            for i in range(len(node["branches"])):
                visit(node["branches"], i)

    visit(root_holder, "root")
    for d in table.values():
        if d["k"] == "record":
            for f in d["fields"]:
                visit(f, "type")
    return out


def _rename(root_holder, table, old, new):
    d = table.pop(old)
    d["name"] = new
    table[new] = d
    for c, k in _slots(root_holder, table):
        if c[k]["k"] == "ref" and c[k]["name"] == old:
            c[k] = {"k": "ref", "name": new}


def json_default_ok(node, table, dj, depth=0):
    """Is `dj` a specification-valid JSON default for `node` (first branch for unions)?"""
    if depth > 20:
        return False
    n = table[node["name"]] if node["k"] == "ref" else node
    k = n["k"]
    if k == "union":
        return json_default_ok(n["branches"][0], table, dj, depth + 1)
    if k == "null":
        return dj is None
    if k == "boolean":
        return isinstance(dj, bool)
    if k in ("int", "long"):
        lo, hi = (B.INT_MIN, B.INT_MAX) if k == "int" else (B.LONG_MIN, B.LONG_MAX)
        return isinstance(dj, int) and not isinstance(dj, bool) and lo <= dj <= hi
    if k in ("float", "double"):
        return isinstance(dj, (int, float)) and not isinstance(dj, bool)
    if k == "string":
        return isinstance(dj, str)
    if k in ("bytes", "fixed"):
        # (reader-side only: F-DEFAULT-BYTES concerns writing and validating)
        return isinstance(dj, str) and all(ord(c) < 256 for c in dj) and (k == "bytes" or len(dj) == n["size"])
    if k == "enum":
        return isinstance(dj, str) and dj in n["symbols"]
    if k == "array":
        return isinstance(dj, list) and all(json_default_ok(n["items"], table, x, depth + 1) for x in dj)
    if k == "map":
        return isinstance(dj, dict) and all(json_default_ok(n["values"], table, x, depth + 1) for x in dj.values())
    if k == "record":
        if not isinstance(dj, dict):
            return False
        for f in n["fields"]:
            if f["name"] in dj:
                if not json_default_ok(f["type"], table, dj[f["name"]], depth + 1):
                    return False
            elif "default" not in f:
                return False
        return True
    return False


def fix_defaults(table):
    """Drop field defaults that an evolution step made invalid for the field's new type."""
    for d in table.values():
        if d["k"] == "record":
            for f in d["fields"]:
                if "default" in f and not json_default_ok(f["type"], table, f["default"]):
                    del f["default"]
        if d["k"] == "enum" and "default" in d and d["default"] not in d["symbols"]:
            del d["default"]


def evolve(d, root, table, nsteps):
    """Reader graph derived from the writer graph by `nsteps` drawn evolution steps."""
    holder = {"root": _copy.deepcopy(root)}
    table = _copy.deepcopy(table)
    applied = []
    for _ in range(nsteps):
        for _attempt in range(4):
            step = d.weighted(EVO_STEPS)
            snap_h, snap_t = _copy.deepcopy(holder), _copy.deepcopy(table)
            if _apply(d, step, holder, table) and graph_ok(holder["root"], table):
                fix_defaults(table)
                applied.append(step)
                break
            holder, table = snap_h, snap_t
    return holder["root"], table, applied


def _apply(d, step, holder, table):
    recs = [x for x in table.values() if x["k"] == "record"]
    enums = [x for x in table.values() if x["k"] == "enum"]
    fixeds = [x for x in table.values() if x["k"] == "fixed"]
    slots = _slots(holder, table)
    if step == "reorder":
        c = [r for r in recs if len(r["fields"]) >= 2]
        if not c:
            return False
        r = d.choice(c)
        k = d.rng(1, len(r["fields"]) - 1)
        r["fields"] = r["fields"][k:] + r["fields"][:k]
        if d.p(0.5):
            r["fields"].reverse()
        return True
    if step == "drop-field":
        c = [r for r in recs if r["fields"]]
        if not c:
            return False
        r = d.choice(c)
        del r["fields"][d.i(len(r["fields"]))]
        return True
    if step in ("add-field-default", "add-field-nodefault"):
        if not recs:
            return False
        r = d.choice(recs)
        if d.p(0.6):
            t, dv = _rich_add(d, table, r["name"])
        else:
            t, dv = d.choice(SIMPLE_ADDS)
        f = {"name": f"added{len(r['fields'])}", "type": _copy.deepcopy(t), "aliases": []}
        if step == "add-field-default":
            f["default"] = _copy.deepcopy(dv)
        r["fields"].insert(d.i(len(r["fields"]) + 1), f)
        return True
    if step == "rename-field-alias":
        c = [r for r in recs if r["fields"]]
        if not c:
            return False
        f = d.choice(d.choice(c)["fields"])
        f["aliases"] = [f["name"]] + ([ "unrelated_alias"] if d.p(0.3) else [])
        f["name"] = "ren_" + f["name"]
        return True
    if step == "promote":
        c = [(cn, k) for cn, k in slots if cn[k]["k"] in ("int", "long", "float", "string", "bytes")]
        if not c:
            return False
        cn, k = d.choice(c)
        from .ref.resolve import PROMOTE
        cn[k] = {"k": d.choice(PROMOTE[cn[k]["k"]])}
        return True
    if step == "change-type":
        c = [(cn, k) for cn, k in slots if cn[k]["k"] in NONPROMO]
        if not c:
            return False
        cn, k = d.choice(c)
        cn[k] = {"k": NONPROMO[cn[k]["k"]]}
        return True
    if step == "enum-add":
        if not enums:
            return False
        e = d.choice(enums)
        e["symbols"].insert(d.i(len(e["symbols"]) + 1), "ZNEW")
        return True
    if step in ("enum-remove-default", "enum-remove-nodefault"):
        c = [e for e in enums if len(e["symbols"]) >= 2]
        if not c:
            return False
        e = d.choice(c)
        del e["symbols"][d.i(len(e["symbols"]))]
        if step == "enum-remove-default":
            e["default"] = d.choice(e["symbols"])
        else:
            e.pop("default", None)
        return True
    if step == "fixed-size":
        if not fixeds:
            return False
        d.choice(fixeds)["size"] += 1
        return True
    if step == "split-named":
        # one writer type, two reader types: a copy under a new name that keeps the old name as alias takes over one of the
        # places where the type is used (an enum copy also loses a symbol and gains a default)
        uses = {}
        for c, k in slots:
            if c[k]["k"] == "ref" and c[k]["name"] in table:
                uses.setdefault(c[k]["name"], []).append((c, k))
        cands = [n for n, u in uses.items() if len(u) >= 2 and table[n]["k"] in ("enum", "fixed")]
        if not cands:
            return False
        old = d.choice(cands)
        ns, short = M.split_full(old)
        new = (ns + "." if ns else "") + "Split" + short
        if new in table:
            return False
        cp = _copy.deepcopy(table[old])
        cp["name"] = new
        cp["aliases"] = [old]
        if cp["k"] == "enum" and len(cp["symbols"]) >= 2:
            cp["symbols"] = cp["symbols"][:-1] if d.p(0.5) else cp["symbols"][1:]
            cp["default"] = cp["symbols"][0]
        table[new] = cp
        c, k = d.choice(uses[old][1:] if d.p(0.7) else uses[old])
        c[k] = {"k": "ref", "name": new}
        return True
    if step in ("rename-type-alias", "rename-type-noalias", "change-namespace"):
        if not table:
            return False
        old = d.choice(list(table))
        ns, short = M.split_full(old)
        if step == "change-namespace":
            nns = d.choice([x for x in ["evo", "", "ns", "evo.deep"] if x != ns])
            new = nns + "." + short if nns else short
        else:
            new = (ns + "." if ns else "") + "Ren" + short
        if new in table:
            return False
        _rename(holder, table, old, new)
        if step == "rename-type-alias":
            table[new]["aliases"] = [old if (ns and d.p(0.5)) else short] + (["Other.Alias"] if d.p(0.3) else [])
        return True
    if step == "wrap-union":
        c = [(cn, k) for cn, k in slots if cn[k]["k"] != "union" and not isinstance(cn, list)]
        if not c:
            return False
        cn, k = d.choice(c)
        t = cn[k]
        tk = t["k"]
        others = [x for x in ["float", "double", "long", "null", "string", "bytes", "int", "boolean"] if x != tk]
        x = {"k": d.choice(others)}
        extra = {"k": d.choice([o for o in others if o != x["k"]])} if d.p(0.3) else None
        bs = [x, t] if d.p(0.6) else [t, x]
        if extra:
            bs.insert(d.i(3), extra)
        cn[k] = {"k": "union", "branches": bs}
        return True
    if step == "unwrap-union":
        c = [(cn, k) for cn, k in slots if cn[k]["k"] == "union"]
        if not c:
            return False
        cn, k = d.choice(c)
        cn[k] = d.choice(cn[k]["branches"])
        return True
    if step == "permute-union":
        c = [(cn, k) for cn, k in slots if cn[k]["k"] == "union" and len(cn[k]["branches"]) >= 2]
        if not c:
            return False
        cn, k = d.choice(c)
        b = cn[k]["branches"]
        r = d.rng(1, len(b) - 1)
        cn[k]["branches"] = b[r:] + b[:r]
        return True
    if step == "union-insert-branch":
        c = [(cn, k) for cn, k in slots if cn[k]["k"] == "union"]
        if not c:
            return False
        cn, k = d.choice(c)
        u = cn[k]
        have = {b["k"] for b in u["branches"]}
        from .ref.resolve import PROMOTE
        targets = [t for b in u["branches"] for t in PROMOTE.get(b["k"], ()) if t not in have]
        pool = targets if (targets and d.p(0.75)) else [x for x in M.PRIMS if x not in have]
        if not pool:
            return False
        u["branches"].insert(d.i(len(u["branches"]) + 1), {"k": d.choice(pool)})
        return True
    if step == "union-drop-branch":
        c = [(cn, k) for cn, k in slots if cn[k]["k"] == "union" and len(cn[k]["branches"]) >= 2]
        if not c:
            return False
        cn, k = d.choice(c)
        del cn[k]["branches"][d.i(len(cn[k]["branches"]))]
        return True
    raise AssertionError(step)


def reachable_table(root, table):
    """Definitions reachable from root (dropping a field may orphan a type)."""
    seen = {}

    def visit(node):
        k = node["k"]
        if k == "ref":
            if node["name"] not in seen:
                seen[node["name"]] = table[node["name"]]
                dd = table[node["name"]]
                if dd["k"] == "record":
                    for f in dd["fields"]:
                        visit(f["type"])
        elif k == "array":
            visit(node["items"])
        elif k == "map":
            visit(node["values"])
        elif k == "union":
            for b in node["branches"]:
                visit(b)

    visit(root)
    return seen


def reach(name, table, acc=None):
    """Named types reachable from definition `name` (including itself)."""
    if acc is None:
        acc = []
    if name in acc:
        return acc
    acc.append(name)

    def visit(node):
        k = node["k"]
        if k == "ref":
            reach(node["name"], table, acc)
        elif k == "array":
            visit(node["items"])
        elif k == "map":
            visit(node["values"])
        elif k == "union":
            for b in node["branches"]:
                visit(b)

    d = table[name]
    if d["k"] == "record":
        for f in d["fields"]:
            visit(f["type"])
    return acc


def piecewise_split(d, root, table):
    """Choose named types to split off; returns (pieces [(ir, table)], remainder (ir, table), names_split) or None."""
    names = list(table)
    if root["k"] == "ref":
        # never split off the top-level type itself (the remainder must stay a definition, not a bare name)
        names = [n for n in names if n != root["name"] and root["name"] not in reach(n, table)]
    if not names:
        return None
    chosen = [n for n in names if d.p(0.5)] or [d.choice(names)]
    pieces = []
    defined = []
    # dependency order: a type's piece is emitted after the pieces of the chosen types it reaches
    order = []
    for n in chosen:
        for m in reversed(reach(n, table)):
            if m in chosen and m not in order:
                order.append(m)
    for n in order:
        if n in defined:
            continue
        ir, t = linearize({"k": "ref", "name": n}, table, already=defined)
        if not _spellable(ir, ""):
            return None
        pieces.append((ir, t))
        defined.extend(t.keys())
    rem_ir, rem_t = linearize(root, table, already=defined)
    if not _spellable(rem_ir, ""):
        return None
    return pieces, (rem_ir, rem_t), defined


def render_plain(node):
    """Deterministic rendering: every definition with explicit name + namespace attribute, references by full name."""
    k = node["k"]
    if k in M.PRIMS:
        return k
    if k == "ref":
        return node["name"]
    if k == "array":
        return {"type": "array", "items": render_plain(node["items"])}
    if k == "map":
        return {"type": "map", "values": render_plain(node["values"])}
    if k == "union":
        return [render_plain(b) for b in node["branches"]]
    ns, short = M.split_full(node["name"])
    out = {"type": k, "name": short, "namespace": ns}
    if k == "fixed":
        out["size"] = node["size"]
    elif k == "enum":
        out["symbols"] = list(node["symbols"])
        if "default" in node:
            out["default"] = node["default"]
    else:
        out["fields"] = []
        for f in node["fields"]:
            fo = {"name": f["name"], "type": render_plain(f["type"])}
            if "default" in f:
                fo["default"] = f["default"]
            out["fields"].append(fo)
    return out


def reversed_variant(js):
    """Same type names, different definitions: every record's fields in reverse order (definitions re-placed at
    first use).  Dict data conforming to `js` conform to the variant too.  None if it cannot be spelled or is identical."""
    try:
        node, _ = M.resolve(_copy.deepcopy(js))
        root, table = to_graph(node)
        changed = False
        for d in table.values():
            if d["k"] == "record" and len(d["fields"]) >= 2:
                d["fields"].reverse()
                changed = True
            if d["k"] == "enum" and len(d["symbols"]) >= 2:
                d["symbols"] = d["symbols"][::-1]
                changed = True
        if not changed:
            return None
        ir, _t = linearize(root, table)
        if not _spellable(ir, ""):
            return None
        return render_plain(ir)
    except Exception:
        return None


def incompatible_variant(js):
    """Same type names, incompatible definitions: every record gains a required field, enums get other symbols,
    fixed types another size.  Data generated for one schema do not validate against the other."""
    try:
        node, _ = M.resolve(_copy.deepcopy(js))
        root, table = to_graph(node)
        if not table:
            return None
        for d in table.values():
            if d["k"] == "record":
                d["fields"].insert(0, {"name": "vx_added", "type": {"k": "long"}, "aliases": []})
                for f in d["fields"]:
                    f.pop("default", None)
            elif d["k"] == "enum":
                d["symbols"] = ["V_" + x for x in d["symbols"]]
                d.pop("default", None)
            elif d["k"] == "fixed":
                d["size"] += 1
        ir, _t = linearize(root, table)
        if not _spellable(ir, ""):
            return None
        return render_plain(ir)
    except Exception:
        return None

"""Shared pieces for the container-file checks (C04-C07)."""
import io

from hypothesis import strategies as st

from . import gen, tagged
from .ref import model as M
from .ref import binary as B
from .ref import container as RC
from .ref import canon
from .runner import Violation, guard, HarnessError

_CODECS = None


def usable_codecs(fastavro):
    """Codecs whose write+read works in this environment (probe)."""
    global _CODECS
    if _CODECS is None:
        ok = []
        for c in ("null", "deflate", "bzip2", "xz", "snappy", "zstandard", "lz4"):
            try:
                fo = io.BytesIO()
                fastavro.writer(fo, "int", [1, 2], codec=c)
                fo.seek(0)
                if list(fastavro.reader(fo)) == [1, 2]:
                    ok.append(c)
            except Exception:
                pass
        _CODECS = ok
    return _CODECS


REF_CODECS = ("null", "deflate", "bzip2", "xz")


class SeqIn:
    """Input exposing only read(n) (full reads until EOF, like a BufferedReader on a pipe)."""

    def __init__(self, data):
        object.__setattr__(self, "_d", data)
        object.__setattr__(self, "_p", 0)
        object.__setattr__(self, "touched", [])

    def read(self, n=-1):
        d, p = self._d, self._p
        if n is None or n < 0:
            out = d[p:]
        else:
            out = d[p : p + n]
        object.__setattr__(self, "_p", p + len(out))
        return out

    def __getattr__(self, name):
        self.touched.append(name)
        raise AttributeError(f"sequential input has no attribute {name!r}")


class WriteOnlyOut:
    """Output exposing only write / flush / seekable()->False."""

    def __init__(self):
        object.__setattr__(self, "_b", bytearray())
        object.__setattr__(self, "touched", [])
        object.__setattr__(self, "flushes", 0)
        object.__setattr__(self, "flushed_len", 0)

    def write(self, b):
        self._b.extend(b)
        return len(b)

    def flush(self):
        object.__setattr__(self, "flushes", self.flushes + 1)
        object.__setattr__(self, "flushed_len", len(self._b))

    def delivered(self):
        """What a consumer at the other end of a buffering pipe or socket has received: the bytes written before the last flush."""
        return bytes(self._b[: getattr(self, "flushed_len", 0)])

    def seekable(self):
        return False

    def getvalue(self):
        return bytes(self._b)

    def __getattr__(self, name):
        self.touched.append(name)
        raise AttributeError(f"write-only output has no attribute {name!r}")


META_KEYS = ["k", "user.key", "é", "", "a b", "x" * 70]
META_VALS = ["", "v", "ünï", "\U0001f600", "y" * 200, '{"json": 1}']


def gen_metadata(d):
    n = d.weighted([(0, 5), (1, 3), (2, 2), (4, 1)])
    out = {}
    for j in range(n):
        k = d.choice(META_KEYS) if d.p(0.7) else d.draw(st.text(max_size=6))
        if k.startswith("avro."):
            k = "u" + k
        out[k] = d.choice(META_VALS) if d.p(0.7) else d.draw(st.text(max_size=10))
    return out


def gen_records(d, feat, ir, table, top_zero_ok=True):
    dg = gen.DataGen(d, feat, table)
    n = d.weighted([(0, 2), (1, 3), (2, 4), (3, 4), (5, 3), (9, 2), (70, 1)])
    if n == 70 and M.deref(ir, table)["k"] not in M.PRIMS:
        n = 12
    return [dg.gen(ir, 5) for _ in range(n)]


def sizes_of(ir, table, records):
    out = []
    for r in records:
        try:
            out.append(len(B.encode(ir, table, r)[0]))
        except Exception:
            out.append(1)
    return out


def gen_interval(d, sizes):
    total = sum(sizes)
    first = sizes[0] if sizes else 1
    cands = [1, first - 1, first, first + 1, total - 1, total, total + 1, 10**6, 16000, 2 * first, first + (sizes[1] if len(sizes) > 1 else 0)]
    cands = [c for c in cands if c >= 1]
    if d.p(0.75):
        return d.choice(cands)
    return d.rng(1, 64)


def container_cases(feat, codecs, with_stream=True):
    @st.composite
    def cases(draw):
        d = gen.D(draw)
        ir, table, js = gen.build_schema(d, feat)
        gen.check_truth(ir, table, js)
        records = gen_records(d, feat, ir, table)
        sizes = sizes_of(ir, table, records)
        codec = d.choice(list(codecs))
        case = {
            "schema": js,
            "records": records,
            "codec": codec,
            "sync_interval": gen_interval(d, sizes),
            "sync_interval2": gen_interval(d, sizes),
            "codec2": d.choice(list(codecs)),
            "level": d.choice([None, None, -1, 0, 1, 6, 9]) if codec == "deflate" else None,
            "marker": d.choice([None, b"\x00" * 16, bytes(range(16)), b"\xff" * 16, b"Obj\x01Obj\x01Obj\x01Obj\x01"]),
            "metadata": gen_metadata(d),
            "parsed": d.p(0.35),
            "stream": d.choice(["bytesio", "bytesio", "file", "seq-in", "wo-out"]) if with_stream else "bytesio",
        }
        return case

    return cases()


def split_records(node, table, blob):
    """Decode back-to-back encodings; returns list of (start, end, trace, value)."""
    out = []
    pos = 0
    while pos < len(blob):
        trace = []
        v, p2 = B.decode(node, table, blob, pos, trace)
        if p2 == pos:
            raise B.RefError("other", "zero-length record in non-empty payload")
        out.append((pos, p2, trace, v))
        pos = p2
    return out


def expected_records(node, table, records, parsed_file):
    """Normalised expected values using the union branches actually present in the file's blocks."""
    total = sum(b["count"] for b in parsed_file["blocks"])
    if total != len(records):
        raise B.RefError("other", f"blocks announce {total} records, {len(records)} were written")
    payload = b"".join(b["data"] for b in parsed_file["blocks"])
    exp = []
    pos = 0
    for r in records:
        trace = []
        v, p2 = B.decode(node, table, payload, pos, trace)
        picker = B.Picker(indices=trace)
        ref_bytes, norm = B.encode(node, table, r, picker)
        if ref_bytes != payload[pos:p2]:
            raise B.RefError("other", f"block bytes of record differ from the reference encoding at payload offset {pos}")
        exp.append(norm)
        pos = p2
    if pos != len(payload):
        raise B.RefError("other", "payload has trailing bytes after the last record")
    return exp


def fallback_expected(node, table, records):
    return [B.encode(node, table, r)[1] for r in records]


def short(v, n=160):
    s = repr(v)
    return s if len(s) <= n else s[:n] + "..."

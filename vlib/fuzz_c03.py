#!/venv/bin/python
"""atheris target for C03: byte 0 selects a schema, the rest is fed to schemaless_reader and to the strict reference
decoder.  reference accepts => fastavro returns the same value and consumes the same bytes; reference rejects because of
an index range or end of input => fastavro must raise; other malformations: no claim.

usage: fuzz_c03.py [libFuzzer flags] [corpus dirs]      (run through vlib.checks.c03, not by hand)"""
import io
import os
import sys

ROOT = os.path.dirname(os.path.dirname(os.path.abspath(__file__)))
sys.path.insert(0, ROOT)
deps = os.path.join(ROOT, ".deps")
if os.path.isdir(deps):
    sys.path.insert(0, deps)
repo = os.path.abspath(os.environ.get("FASTAVRO_REPO", "/repo"))
sys.path.insert(0, repo)
sys.dont_write_bytecode = True
sys.setrecursionlimit(3000)

import atheris  # noqa: E402
from vlib import env  # noqa: E402

sys.meta_path.insert(0, env._Blocker())
with atheris.instrument_imports(include=["fastavro"]):
    import fastavro  # noqa: E402
    import fastavro.read  # noqa: E402

from vlib.fuzzschemas import SCHEMAS  # noqa: E402
from vlib.ref import model as M  # noqa: E402
from vlib.ref import binary as B  # noqa: E402

RESOLVED = [M.resolve(s) for s in SCHEMAS]
PARSED = [fastavro.parse_schema(s) for s in SCHEMAS]


class Disagreement(Exception):
    pass


def differential(idx, data):
    """Returns None if fastavro and the reference agree, else a description."""
    node, table = RESOLVED[idx]
    B.ITEM_BUDGET = [20000]
    try:
        want, pos = B.decode(node, table, data, 0)
        ref = ("ok", want, pos)
    except B.RefError as e:
        if "item budget" in str(e):
            return None  # billions of zero-byte items: valid but a resource question, not C03's
        ref = ("err", e.kind)
    except RecursionError:
        return None
    finally:
        B.ITEM_BUDGET = None
    if ref[0] == "err" and ref[1] not in ("index", "eof"):
        return None  # other malformations: no claim (and possibly astronomically many zero-byte items)
    fo = io.BytesIO(data)
    try:
        got = fastavro.schemaless_reader(fo, PARSED[idx])
        fa = ("ok", got, fo.tell())
    except RecursionError:
        return None
    except Exception as e:  # noqa
        fa = ("err", type(e).__name__)
    if ref[0] == "ok":
        if fa[0] != "ok":
            return f"reference decodes {ref[1]!r:.80} ({ref[2]} bytes) but fastavro raised {fa[1]}"
        if not B.same(fa[1], ref[1]):
            return f"fastavro {fa[1]!r:.80} reference {ref[1]!r:.80}"
        if fa[2] != ref[2]:
            return f"fastavro consumed {fa[2]} bytes, reference {ref[2]}"
        return None
    if ref[1] in ("index", "eof") and fa[0] == "ok":
        return f"reference rejects ({ref[1]}) but fastavro returned {fa[1]!r:.80}"
    return None


def target(data):
    if len(data) < 1:
        return
    idx = data[0] % len(SCHEMAS)
    msg = differential(idx, bytes(data[1:]))
    if msg is not None:
        raise Disagreement(f"schema #{idx}: {msg}")


if __name__ == "__main__":
    atheris.Setup(sys.argv, target)
    atheris.Fuzz()

"""Hypothesis driver shared by all checks: collect-then-shrink search, sharding,
failure bucketing, known-finding matching, evidence, replay."""
import copy
import hashlib
import json
import multiprocessing
import os
import re
import resource
import signal
import sys
import threading
import time
import traceback

from . import env, tagged

REPO = env.repo_path()
FA_DIR = os.path.join(REPO, "fastavro") + os.sep


class Violation(Exception):
    """Raised by run_case when the property is violated on a case."""

    def __init__(self, kind, message, exc=None, where=None):
        self.kind = kind
        self.message = message
        sig = kind
        if exc is not None:
            sig += ":" + type(exc).__name__ + ":" + (where or innermost_frame(exc) or "?")
        self.signature = sig
        super().__init__(f"{sig}: {message}")


class HarnessError(Exception):
    pass


class OutOfDomain(Exception):
    """The generated case turned out to lie outside the property's stated domain (counted, never a verdict)."""

    def __init__(self, why):
        self.why = why
        super().__init__(why)


F32_MAX = (2 - 2**-23) * 2.0**127


def _has_big_float(x, depth=0):
    if depth > 40:
        return False
    if isinstance(x, float):
        return x == x and abs(x) != float("inf") and abs(x) > F32_MAX
    if isinstance(x, int) and not isinstance(x, bool):
        return abs(x) > F32_MAX
    if isinstance(x, dict):
        return any(_has_big_float(v, depth + 1) for v in x.values())
    if isinstance(x, (list, tuple)):
        return any(_has_big_float(v, depth + 1) for v in x)
    if hasattr(x, "items") and not isinstance(x, (str, bytes)):
        try:
            return any(_has_big_float(v, depth + 1) for v in x.values())
        except Exception:
            return False
    if hasattr(x, "__iter__") and not isinstance(x, (str, bytes, bytearray)):
        try:
            return any(_has_big_float(v, depth + 1) for v in x)
        except Exception:
            return False
    return False


def innermost_frame(exc):
    tb = exc.__traceback__
    name = None
    while tb is not None:
        fn = tb.tb_frame.f_code.co_filename
        if os.path.abspath(fn).startswith(FA_DIR):
            name = os.path.basename(fn)[:-3] + "." + tb.tb_frame.f_code.co_name
        tb = tb.tb_next
    return name


def guard(kind, fn, *a, **k):
    """Call into fastavro; any exception is a violation of kind `kind`."""
    try:
        return fn(*a, **k)
    except Violation:
        raise
    except RecursionError as e:
        raise Violation(kind, "RecursionError", exc=e)
    except OverflowError as e:
        # a finite double beyond IEEE single range that the writer placed under a 'float' branch/leaf:
        # outside every statement's domain ("float leaves representable in the target width")
        if "float too large to pack" in str(e) and (_has_big_float(a) or _has_big_float(k)):
            raise OutOfDomain("double beyond single range written under float")
        raise Violation(kind, f"{type(e).__name__}: {str(e)[:300]}", exc=e)
    except Exception as e:  # noqa
        raise Violation(kind, f"{type(e).__name__}: {str(e)[:300]}", exc=e)


def outcome(fn, *a, **k):
    """('ok', value) or ('exc', exception)."""
    try:
        return ("ok", fn(*a, **k))
    except RecursionError as e:
        return ("exc", e)
    except Exception as e:  # noqa
        return ("exc", e)


class Check:
    pid = "C00"
    level = "exploration"
    rule = ""
    assumptions = []
    required_labels = []
    quick = (500, 1)  # (examples per shard, shards)
    thorough = (2000, 16)
    max_shrink_s = {"quick": 8, "thorough": 60}
    # a single case that produces no result within this time, or needs more address space than this, is reported as a
    # violation (valid inputs of a few hundred bytes are decided in milliseconds): a check must not hang on a change that
    # makes the library loop or allocate without bound.  Two to four orders of magnitude above the slowest legitimate case.  After two such failures a
    # shard stops (every further case would cost another time-out).
    case_timeout_s = 90
    memory_limit_bytes = 8 << 30
    exhaustive = False

    def selftest(self):
        pass

    def strategy(self, tier):
        raise NotImplementedError

    def fixed_cases(self, tier):
        return []

    def fixed_cases_for_shard(self, tier, shard, nshards):
        """Deterministic cases run before the generated ones; by default all on shard 0."""
        return self.fixed_cases(tier) if shard == 0 else []

    def run_case(self, case):
        raise NotImplementedError

    def nontrivial(self, labels):
        return True

    def predicates(self):
        """name -> predicate(case, violation) used by known_findings.json entries."""
        return {}

    def extra_coverage(self):
        return {}


def _mix(seed, shard):
    h = hashlib.sha256(f"{seed}:{shard}".encode()).digest()
    return int.from_bytes(h[:8], "big")


class Stats:
    def __init__(self):
        self.evaluations = 0
        self.labels = {}
        self.nontrivial_digests = set()
        self.samples = []
        self.failures = {}  # signature -> dict(count, case, message, shard_seed)
        self.harness_errors = []

    def merge(self, other):
        self.evaluations += other.evaluations
        for k, v in other.labels.items():
            self.labels[k] = self.labels.get(k, 0) + v
        self.nontrivial_digests |= other.nontrivial_digests
        self.samples.extend(other.samples)
        for sig, f in other.failures.items():
            if sig in self.failures:
                self.failures[sig]["count"] += f["count"]
            else:
                self.failures[sig] = f
        self.harness_errors.extend(other.harness_errors)


class CaseTimeout(BaseException):
    pass


class ShardAbort(BaseException):
    """Raised after repeated resource failures: further cases would each cost a full time-out."""


def _on_alarm(signum, frame):
    raise CaseTimeout()


def _run_case_guarded(check, case):
    """check.run_case under a wall-clock watchdog; MemoryError (address-space limit) and the watchdog become violations."""
    timeout = getattr(check, "case_timeout_s", 600)
    use_alarm = threading.current_thread() is threading.main_thread() and timeout
    if use_alarm:
        old = signal.signal(signal.SIGALRM, _on_alarm)
        signal.setitimer(signal.ITIMER_REAL, timeout)
    try:
        return check.run_case(case)
    except CaseTimeout:
        raise Violation(f"no-result-within-{timeout}s", f"the case was still running after {timeout} s (cases of this check are decided in milliseconds to seconds): the library loops or waits; case={tagged.enc(case)!r:.600}")
    except MemoryError as e:
        where = _innermost_fastavro_frame(e)
        raise Violation("memory-exhausted:" + where, f"MemoryError under an address-space limit of {getattr(check, 'memory_limit_bytes', 0) >> 30} GiB while deciding a small case; innermost library frame {where}; case={tagged.enc(case)!r:.600}")
    finally:
        if use_alarm:
            signal.setitimer(signal.ITIMER_REAL, 0)
            signal.signal(signal.SIGALRM, old)


def _innermost_fastavro_frame(e):
    where = "?"
    tb = e.__traceback__
    while tb is not None:
        fn = tb.tb_frame.f_code.co_filename
        if fn.startswith(FA_DIR):
            where = os.path.splitext(os.path.basename(fn))[0] + "." + tb.tb_frame.f_code.co_name
        tb = tb.tb_next
    return where


def _limit_memory(check):
    limit = getattr(check, "memory_limit_bytes", 0)
    if not limit:
        return None
    try:
        soft, hard = resource.getrlimit(resource.RLIMIT_AS)
        new = limit if hard == resource.RLIM_INFINITY else min(limit, hard)
        resource.setrlimit(resource.RLIMIT_AS, (new, hard))
        return (soft, hard)
    except (ValueError, OSError):
        return None


def _restore_memory(old):
    if old is not None:
        try:
            resource.setrlimit(resource.RLIMIT_AS, old)
        except (ValueError, OSError):
            pass


def execute(check, case, stats, shard_seed=None, keep_sample=False):
    stats.evaluations += 1
    pristine = case
    try:
        # the code under test may modify what it is handed (that is itself a finding for C17):
        # keep the generated case pristine for the replay file, the digest and the samples
        case = copy.deepcopy(pristine)
        labels = _run_case_guarded(check, case)
    except Violation as v:
        case = pristine
        f = stats.failures.get(v.signature)
        if f is None:
            stats.failures[v.signature] = {
                "count": 1,
                "case": tagged.enc(case),
                "message": v.message,
                "kind": v.kind,
                "shard_seed": shard_seed,
            }
        else:
            f["count"] += 1
            # keep the smallest failing case seen as the representative
            e = tagged.enc(case)
            if len(json.dumps(e)) < len(json.dumps(f["case"])):
                f["case"] = e
                f["message"] = v.message
        stats.labels["outcome:violation"] = stats.labels.get("outcome:violation", 0) + 1
        if v.kind.startswith(("no-result-within", "memory-exhausted")) or ":MemoryError" in v.signature:
            stats.labels["outcome:resource-failure"] = stats.labels.get("outcome:resource-failure", 0) + 1
            if stats.labels["outcome:resource-failure"] >= 2:
                raise ShardAbort()
        return None
    except HarnessError:
        raise
    except OutOfDomain as e:
        l = "domain:" + e.why
        stats.labels[l] = stats.labels.get(l, 0) + 1
        return None
    except Exception as e:  # bug in the harness / oracle: never a violation
        case = pristine
        stats.harness_errors.append(
            {"error": "".join(traceback.format_exception(type(e), e, e.__traceback__))[-3000:],
             "case": tagged.enc(case)}
        )
        if len(stats.harness_errors) >= 3:
            raise HarnessError("too many internal errors")
        return None
    case = pristine
    labels = set(labels or ())
    for l in labels:
        stats.labels[l] = stats.labels.get(l, 0) + 1
    if check.nontrivial(labels):
        stats.nontrivial_digests.add(tagged.digest(case))
    if keep_sample or len(stats.samples) < 2 or (stats.evaluations % 997 == 0 and len(stats.samples) < 6):
        stats.samples.append(tagged.truncate(tagged.enc(case)))
    return labels


def _hypothesis_run(check, tier, shard_seed, n_examples, body, shrink=False, max_shrink_s=20):
    import hypothesis
    from hypothesis import HealthCheck, Phase, given, settings
    import hypothesis.internal.conjecture.engine as eng

    eng.MAX_SHRINKING_SECONDS = max_shrink_s
    phases = [Phase.generate] + ([Phase.shrink] if shrink else [])
    st = check.strategy(tier)

    @hypothesis.seed(shard_seed)
    @settings(
        max_examples=n_examples,
        database=None,
        deadline=None,
        derandomize=False,
        report_multiple_bugs=False,
        phases=phases,
        suppress_health_check=[HealthCheck.too_slow, HealthCheck.large_base_example, HealthCheck.data_too_large],
        verbosity=hypothesis.Verbosity.quiet,
    )
    @given(st)
    def t(case):
        body(case)

    t()


def _run_shard(args):
    check, tier, seed, shard, n_examples, n_shards = args
    stats = Stats()
    shard_seed = _mix(seed, shard)
    err = None
    old_limit = _limit_memory(check)
    try:
        for case in check.fixed_cases_for_shard(tier, shard, n_shards):
            execute(check, case, stats, shard_seed=None, keep_sample=len(stats.samples) < 1)
        if n_examples > 0:
            _hypothesis_run(check, tier, shard_seed, n_examples, lambda case: execute(check, case, stats, shard_seed))
    except ShardAbort:
        stats.labels["shard-stopped-after-repeated-resource-failures"] = 1
    except HarnessError as e:
        err = f"HarnessError: {e}"
    except Exception as e:  # hypothesis health check, Unsatisfiable, generator bug
        err = "".join(traceback.format_exception(type(e), e, e.__traceback__))[-4000:]
    finally:
        _restore_memory(old_limit)
    extra = {}
    try:
        extra = check.extra_coverage() or {}
    except Exception:
        pass
    return stats, err, extra


def load_known(pid):
    path = os.path.join(env.VERIF_ROOT, "known_findings.json")
    if not os.path.exists(path):
        return []
    data = json.load(open(path))
    return [e for e in data.get("open", []) if e.get("property") == pid]


def match_known(check, known, signature, case_enc, message):
    preds = check.predicates()
    for e in known:
        if not re.fullmatch(e["signature"], signature):
            continue
        pn = e.get("predicate")
        if pn:
            p = preds.get(pn)
            if p is None:
                continue
            try:
                if not p(tagged.dec(case_enc), message):
                    continue
            except Exception:
                continue
        return e
    return None


def shrink_failure(check, tier, signature, failure, known, n_examples, budget_s):
    """Re-run the shard that found `signature` with shrinking enabled; the body
    fails only for that signature (and only for cases no known finding covers)."""
    if failure.get("shard_seed") is None:
        return failure["case"], failure["message"]
    last = {}

    def body(case):
        pristine = case
        case = copy.deepcopy(case)
        try:
            check.run_case(case)
        except OutOfDomain:
            return
        except Violation as v:
            case = pristine
            if v.signature == signature and not match_known(check, known, signature, tagged.enc(case), v.message):
                last["case"] = tagged.enc(case)
                last["message"] = v.message
                raise
        except Exception:
            pass

    t0 = time.time()
    try:
        _hypothesis_run(check, tier, failure["shard_seed"], n_examples, body, shrink=True, max_shrink_s=budget_s)
    except Violation:
        pass
    except Exception:
        pass
    if "case" in last and len(json.dumps(last["case"])) <= len(json.dumps(failure["case"])):
        return last["case"], last["message"]
    return failure["case"], failure["message"]


def write_evidence(check, tier, seed, stats, wall, violations, extra, known_cases, shards):
    cov = {
        "evaluations": stats.evaluations,
        "distinct_nontrivial": len(stats.nontrivial_digests),
        "rule": check.rule,
        "samples": stats.samples[:8],
        "labels": dict(sorted(stats.labels.items())),
        "known_finding_cases": known_cases,
        "shards": shards,
        "exhaustive": bool(check.exhaustive),
        "tree": REPO,
    }
    cov.update(extra or {})
    ev = {
        "property_id": check.pid,
        "tier": tier,
        "seed": seed,
        "level": check.level,
        "coverage": cov,
        "assumptions": list(check.assumptions),
        "wall_s": round(wall, 3),
        "violations": violations,
    }
    d = os.path.join(env.VERIF_ROOT, "evidence")
    if REPO != "/repo":  # sensitivity runs against scratch trees never touch the committed evidence
        d = os.path.join(env.VERIF_ROOT, "scratch", "evidence-mut")
    os.makedirs(d, exist_ok=True)
    tmp = os.path.join(d, f".{check.pid}.json.tmp")
    with open(tmp, "w") as f:
        json.dump(ev, f, indent=1, ensure_ascii=True)
        f.write("\n")
    os.replace(tmp, os.path.join(d, f"{check.pid}.json"))


def write_replay(check, signature, case_enc, message):
    d = os.path.join(env.VERIF_ROOT, "replays" if REPO == "/repo" else os.path.join("scratch", "replays-mut"))
    os.makedirs(d, exist_ok=True)
    h = hashlib.sha1(signature.encode()).hexdigest()[:10]
    path = os.path.join(d, f"{check.pid}-{h}.json")
    with open(path, "w") as f:
        json.dump({"property": check.pid, "signature": signature, "message": message, "case": case_enc}, f, indent=1)
        f.write("\n")
    return path


def replay(check, path):
    data = json.load(open(path))
    case = tagged.dec(data["case"])
    try:
        check.selftest()
    except Exception as e:
        print(f"HARNESS-ERROR: reference self-test failed: {e!r}")
        return 2
    _limit_memory(check)
    try:
        _run_case_guarded(check, case)
    except OutOfDomain as e:
        print(f"replay {path}: case lies outside the property's domain ({e.why}); nothing asserted")
        return 0
    except Violation as v:
        print(f"  {v.signature}: {v.message}")
        m = match_known(check, load_known(check.pid), v.signature, data["case"], v.message)
        if m is not None:
            print(f"KNOWN-FINDING: property={check.pid} {m['id']}: {m['what']}")
            return 0
        print(f"VIOLATION property={check.pid} replay={path}")
        return 1
    print(f"replay {path}: property held")
    return 0


def run(check, tier, seed, examples=None, shards=None, verbose=True):
    t0 = time.time()
    try:
        check.selftest()
    except Exception as e:
        traceback.print_exc()
        print(f"HARNESS-ERROR: reference self-test failed: {e!r}")
        return 2
    n_examples, n_shards = getattr(check, tier)
    if examples is not None:
        n_examples = examples
    if shards is not None:
        n_shards = shards
    known = load_known(check.pid)

    total = Stats()
    errors = []
    extras = {}
    jobs = [(check, tier, seed, s, n_examples, n_shards) for s in range(n_shards)]
    if n_shards == 1:
        results = [_run_shard(jobs[0])]
    else:
        ctx = multiprocessing.get_context("fork")
        with ctx.Pool(min(n_shards, os.cpu_count() or 1)) as pool:
            results = pool.map(_run_shard, jobs, chunksize=1)
    for stats, err, extra in results:
        total.merge(stats)
        if err:
            errors.append(err)
        for k, v in (extra or {}).items():
            if isinstance(v, (int, float)) and not isinstance(v, bool) and isinstance(extras.get(k, 0), (int, float)):
                extras[k] = extras.get(k, 0) + v
            else:
                extras.setdefault(k, v)

    # --- optional supplement (e.g. coverage-guided byte-level fuzzing): returns cases to classify + coverage
    sup = getattr(check, "supplement", None)
    if sup is not None and not errors:
        try:
            cases, cov = sup(tier, seed)
            for case in cases:
                execute(check, case, total, None, keep_sample=True)
            extras.update(cov or {})
        except Exception as e:
            errors.append("supplement failed: " + "".join(traceback.format_exception(type(e), e, e.__traceback__))[-1500:])

    rc = 0
    out = []
    # --- known-finding probes (deterministic reproducers) ---------------------------------
    for e in known:
        if "repro" not in e:
            continue
        try:
            check.run_case(tagged.dec(e["repro"]))
            out.append(f"note: known finding {e['id']} no longer reproduces (probe passed)")
        except Violation as v:
            if match_known(check, [e], v.signature, e["repro"], v.message):
                out.append(f"KNOWN-FINDING: property={check.pid} {e['id']}: {e['what']}")
            else:
                # probe fails differently from what the entry describes: report it
                total.failures.setdefault(
                    v.signature,
                    {"count": 1, "case": e["repro"], "message": v.message, "kind": v.kind, "shard_seed": None},
                )
        except Exception as ex:
            errors.append(f"probe {e['id']} raised internal error {ex!r}")

    known_cases = 0
    known_by_id = {}
    violations = 0
    for sig, f in sorted(total.failures.items()):
        m = match_known(check, known, sig, f["case"], f["message"])
        if m is not None:
            known_cases += f["count"]
            known_by_id[m["id"]] = known_by_id.get(m["id"], 0) + f["count"]
            continue
        violations += 1
        case_enc, msg = f["case"], f["message"]
        resource_failure = f["kind"].startswith(("no-result-within", "memory-exhausted")) or ":MemoryError" in sig
        if violations <= 2 and not resource_failure:  # (re-running a case that hangs costs a full time-out per attempt)
            case_enc, msg = shrink_failure(
                check, tier, sig, f, known, n_examples, check.max_shrink_s.get(tier, 20)
            )
        path = write_replay(check, sig, case_enc, msg)
        out.append(f"  {sig} x{f['count']}: {msg[:400]}")
        out.append(f"VIOLATION property={check.pid} replay={path}")
        rc = 1

    if total.harness_errors:
        errors.append("internal error in check code:\n" + total.harness_errors[0]["error"])
    missing = [l for l in check.required_labels if not total.labels.get(l)]
    if missing and not errors and rc == 0:
        errors.append(f"generator regression: required case classes never produced: {missing}")

    wall = time.time() - t0
    if total.evaluations > 0:
        if known_by_id:
            extras["known_finding_buckets"] = known_by_id
        write_evidence(check, tier, seed, total, wall, violations, extras, known_cases, n_shards)
    for line in out:
        print(line)
    if verbose:
        print(
            f"{check.pid} tier={tier} seed={seed} evaluations={total.evaluations} "
            f"distinct_nontrivial={len(total.nontrivial_digests)} violations={violations} "
            f"known_finding_cases={known_cases} wall={wall:.1f}s"
        )
    if errors:
        for e in errors[:3]:
            print("HARNESS-ERROR:", e)
        if rc == 0:
            return 2
    return rc

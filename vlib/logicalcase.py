"""Generated unions of logical branches with canonical / raw Python values (used by C09 and C10)."""
import datetime as dt
import decimal
import uuid

UTC = dt.timezone.utc


def logical_union_case(d):
    """Union of logical branches over distinct base types (several decimal 'fixed' allowed) plus a few primitives, in a
    drawn order; the datum is the canonical Python value of one branch (or a raw one), so it may conform to several
    branches, to a later one only (a decimal the first decimal branch cannot hold) or to none."""
    cands = []
    if d.p(0.5):
        cands.append({"type": "int", "logicalType": d.choice(["date", "time-millis"])})
    if d.p(0.5):
        cands.append({"type": "long", "logicalType": d.choice(["timestamp-millis", "timestamp-micros", "time-micros", "local-timestamp-millis", "local-timestamp-micros"])})
    if d.p(0.3):
        cands.append({"type": "string", "logicalType": "uuid"})
    if d.p(0.6):
        prec = d.rng(1, 12)
        cands.append({"type": "bytes", "logicalType": "decimal", "precision": prec, "scale": d.rng(0, prec)})
    for j in range(d.choice([0, 1, 2, 3, 1, 2])):
        size = d.rng(1, 9)
        maxp = len(str(2 ** (8 * size - 1) - 1)) - 1
        prec = d.rng(1, max(1, maxp))
        cands.append({"type": "fixed", "name": f"Fd{j}", "size": size, "logicalType": "decimal", "precision": prec, "scale": d.rng(0, prec)})
    for p in ["null", "double", "boolean"]:
        if d.p(0.3):
            cands.append(p)
    if len(cands) < 2:
        cands += ["null", {"type": "fixed", "name": "FdX", "size": 4, "logicalType": "decimal", "precision": 6, "scale": 2}]
    branches = []
    for c in cands:
        branches.insert(d.i(len(branches) + 1), c)
    pick = d.choice(branches)
    lt = pick.get("logicalType") if isinstance(pick, dict) else None
    raw = d.p(0.15)
    if lt == "decimal" or d.p(0.25):
        # any finite decimal with up to 14 digits and exponent -13..3: the first branch able to hold it wins
        ndig = d.rng(1, 14)
        digits = d.rng(10 ** (ndig - 1), 10**ndig - 1) if d.p(0.9) else 0
        val = decimal.Decimal(digits).scaleb(-d.rng(0, min(13, ndig + 2)) if d.p(0.85) else d.rng(1, 3))
        if d.p(0.4):
            val = -val
        if raw and isinstance(pick, dict) and pick["type"] == "fixed":
            val = d.rng(-(10 ** pick["precision"]) + 1, 10 ** pick["precision"] - 1).to_bytes(pick["size"], "big", signed=True)
    elif lt == "date":
        val = 18000 if raw else dt.date.fromordinal(d.rng(1, dt.date.max.toordinal()))
    elif lt == "time-millis":
        val = 5 if raw else dt.time(d.rng(0, 23), d.rng(0, 59), d.rng(0, 59), d.rng(0, 999) * 1000)
    elif lt == "time-micros":
        val = 2**33 if raw else dt.time(d.rng(0, 23), d.rng(0, 59), d.rng(0, 59), d.rng(0, 999999))
    elif lt in ("timestamp-millis", "timestamp-micros"):
        val = -(2**40) if raw else dt.datetime(d.rng(1, 9999), d.rng(1, 12), d.rng(1, 28), d.rng(0, 23), d.rng(0, 59), d.rng(0, 59), d.rng(0, 999) * 1000, tzinfo=UTC)
    elif lt in ("local-timestamp-millis", "local-timestamp-micros"):
        val = 7 if raw else dt.datetime(d.rng(1, 9999), d.rng(1, 12), d.rng(1, 28), d.rng(0, 23), d.rng(0, 59), d.rng(0, 59), d.rng(0, 999) * 1000)
    elif lt == "uuid":
        val = uuid.UUID(int=d.rng(0, 2**128 - 1))
        if raw:
            val = str(val)
    elif pick == "null":
        val = None
    elif pick == "double":
        val = d.choice([1.5, -0.0, 3])
    else:
        val = d.choice([True, False])
    fixeds = [b for b in branches if isinstance(b, dict) and b.get("type") == "fixed"]
    if fixeds and d.p(0.35):
        # the named logical type is defined once (first field) and then used by name: as a union branch and directly
        fx = fixeds[0]
        small = lambda: decimal.Decimal(d.rng(0, 9) * (-1 if d.p(0.3) else 1)).scaleb(-fx["scale"])  # noqa: E731
        by_name = [fx["name"] if b is fx else b for b in branches]
        js = {"type": "record", "name": "LUR", "fields": [{"name": "first", "type": fx}, {"name": "u", "type": by_name}, {"name": "again", "type": fx["name"]},
                                                          {"name": "more", "type": {"type": "array", "items": fx["name"]}}]}
        datum = {"first": small(), "u": val, "again": small(), "more": [small(), small()]}
        return {"schema": js, "datum": datum, "parsed": d.p(0.4), "opts": 0, "tuple_notation": True, "wrong_hint": False, "may_not_conform": True, "logical_generated": True, "raw": raw, "by_name_logical": True}
    nested = d.p(0.3)
    js = {"type": "record", "name": "LU", "fields": [{"name": "u", "type": {"type": "array", "items": branches}}]} if nested else branches
    datum = {"u": [val, val]} if nested else val
    return {"schema": js, "datum": datum, "parsed": d.p(0.4), "opts": 0, "tuple_notation": True, "wrong_hint": False, "may_not_conform": True, "logical_generated": True, "raw": raw}

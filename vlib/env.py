"""Process bootstrap shared by every check.

* re-executes the interpreter once with a fixed environment (PYTHONHASHSEED=0,
  TZ=UTC, no bytecode writing) so that a run is a pure function of
  (working tree, VERIF_SEED, tier);
* puts the repository under test (FASTAVRO_REPO, default /repo) and the local
  dependency directory (/verif/.deps) on sys.path;
* blocks the compiled extension modules so that the working-tree ``*_py``
  sources are what every check exercises.
"""
import importlib.abc
import os
import sys
import time

VERIF_ROOT = os.path.dirname(os.path.dirname(os.path.abspath(__file__)))
GUARD = "FASTAVRO_VERIF"

_BLOCKED = {
    "fastavro._read",
    "fastavro._write",
    "fastavro._schema",
    "fastavro._validation",
    "fastavro._logical_readers",
    "fastavro._logical_writers",
}


class _Blocker(importlib.abc.MetaPathFinder):
    def find_spec(self, name, path, target=None):
        if name in _BLOCKED:
            raise ImportError(f"{name} blocked by verification harness (pure-Python sources are under test)")
        return None


def repo_path():
    return os.path.abspath(os.environ.get("FASTAVRO_REPO", "/repo"))


def reexec_if_needed():
    if os.environ.get("_VERIF_BOOT") == "1":
        return
    env = dict(os.environ)
    env["_VERIF_BOOT"] = "1"
    env["PYTHONHASHSEED"] = "0"
    env["TZ"] = "UTC"
    env["PYTHONDONTWRITEBYTECODE"] = "1"
    env[GUARD] = "1"
    env.setdefault("VERIF_SEED", "1")
    os.execve(sys.executable, [sys.executable] + sys.argv, env)


def bootstrap():
    """Returns the imported fastavro package (from the tree under test)."""
    reexec_if_needed()
    try:
        time.tzset()
    except AttributeError:  # pragma: no cover
        pass
    sys.dont_write_bytecode = True
    deps = os.path.join(VERIF_ROOT, ".deps")
    repo = repo_path()
    # order: repo first so that `fastavro` is the working tree, then deps
    for p in (deps, repo):
        if p in sys.path:
            sys.path.remove(p)
    if os.path.isdir(deps):
        sys.path.insert(0, deps)
    sys.path.insert(0, repo)
    if VERIF_ROOT not in sys.path:
        sys.path.insert(0, VERIF_ROOT)
    sys.meta_path.insert(0, _Blocker())
    try:
        import fastavro  # noqa
        import fastavro.read, fastavro.write, fastavro.schema, fastavro.validation  # noqa
    except Exception as e:  # harness error, never a violation
        print(f"HARNESS-ERROR: cannot import fastavro from {repo}: {e!r}")
        sys.exit(2)
    src = os.path.abspath(fastavro.__file__)
    if not src.startswith(repo + os.sep):
        print(f"HARNESS-ERROR: fastavro imported from {src}, expected under {repo}")
        sys.exit(2)
    if fastavro.read._read.__name__ != "fastavro._read_py":
        print("HARNESS-ERROR: compiled reader in use")
        sys.exit(2)
    try:
        import hypothesis  # noqa
    except Exception as e:
        print(f"HARNESS-ERROR: hypothesis not importable: {e!r} (run MANIFEST.setup_cmd)")
        sys.exit(2)
    return fastavro


def seed():
    try:
        return int(os.environ.get("VERIF_SEED", "1"))
    except ValueError:
        return 1

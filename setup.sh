#!/bin/bash
# Offline setup: make sure hypothesis (and optionally atheris) are importable by /venv/bin/python.
cd "$(dirname "$0")"
mkdir -p .deps evidence replays scratch
if ! /venv/bin/python -c "import hypothesis" 2>/dev/null; then
  /venv/bin/pip install --no-index --find-links /opt/veriftools/wheels --target .deps hypothesis || exit 1
fi
if ! PYTHONPATH=.deps /venv/bin/python -c "import atheris" 2>/dev/null; then
  /venv/bin/pip install -q --no-index --find-links /opt/veriftools/wheels --target .deps atheris 2>/dev/null || echo "note: atheris not installable; the atheris supplement is skipped"
fi
PYTHONPATH=/repo /venv/bin/python -c "import hypothesis, fastavro; print('setup ok: hypothesis', hypothesis.__version__)"
